package c03

import (
	"bufio"
	"bytes"
	"encoding/json"
	"flag"
	"fmt"
	"go/ast"
	goparser "go/parser"
	"go/token"
	"math/rand"
	"os"
	"path/filepath"
	"sort"
	"strconv"
	"strings"

	"github.com/benhoyt/goawk/parser"
	"github.com/benhoyt/goawk/verifharness/hx"
)

func repoDir() string {
	if d := os.Getenv("VERIF_REPO"); d != "" {
		return d
	}
	return "/repo"
}

type source struct {
	origin string
	text   []byte
}

// corpusFiles returns the AWK programs under testdata (the one-true-awk
// p.*/t.*/g.*/tt.* programs and every *.awk file).
func corpusFiles() []source {
	root := filepath.Join(repoDir(), "testdata")
	var out []source
	filepath.Walk(root, func(p string, info os.FileInfo, err error) error {
		if err != nil || info.IsDir() {
			return nil
		}
		rel, _ := filepath.Rel(root, p)
		if strings.HasPrefix(rel, "output") || strings.HasPrefix(rel, "csv") {
			return nil
		}
		base := filepath.Base(p)
		isProg := strings.HasSuffix(base, ".awk")
		if filepath.Dir(rel) == "." {
			for _, pre := range []string{"p.", "t.", "g.", "tt."} {
				if strings.HasPrefix(base, pre) {
					isProg = true
				}
			}
		}
		if !isProg || info.Size() > 32*1024 {
			return nil
		}
		b, err := os.ReadFile(p)
		if err == nil {
			out = append(out, source{"testdata/" + rel, b})
		}
		return nil
	})
	sort.Slice(out, func(i, j int) bool { return out[i].origin < out[j].origin })
	return out
}

// embeddedSources returns the string literals of the repository's Go test
// files (AWK programs, inputs, expected outputs: any byte string is a
// legitimate source for this property).
func embeddedSources() []source {
	var out []source
	seen := map[string]bool{}
	for _, rel := range []string{"lexer/lexer_test.go", "parser/parser_test.go", "interp/interp_test.go", "goawk_test.go",
		"interp/example_test.go", "interp/newexecute_test.go"} {
		p := filepath.Join(repoDir(), rel)
		fset := token.NewFileSet()
		f, err := goparser.ParseFile(fset, p, nil, 0)
		if err != nil {
			continue
		}
		ast.Inspect(f, func(n ast.Node) bool {
			if bl, ok := n.(*ast.BasicLit); ok && bl.Kind == token.STRING {
				s, err := strconv.Unquote(bl.Value)
				if err == nil && len(s) >= 2 && len(s) <= 3000 && !seen[s] {
					seen[s] = true
					out = append(out, source{fmt.Sprintf("%s:%d", rel, fset.Position(bl.Pos()).Line), []byte(s)})
				}
			}
			return true
		})
	}
	return out
}

var snippets = []string{
	"1e\n", "1e+\n", "1e\r\n", "1E-\r\n", "2.5e\n\n", ".5e+ ", "1e", "\\\n", "\\\r\n", "\\", "\r", "\r\n", "\n", "\t",
	"\"", "'", "\"\\", "/", "/=", "\\/", "\xc3\xa9", "\xff", "\x00", ")", "(", "}", "{", "]", "[", ";", ",", "$", "@",
	"&", "&&", "||", "|", "++", "--", "**=", "!~", ">>", "# c\n", "\"s\\x\"", "\"\\u12345678\"", "\"\\101\"", "getline", "in",
	"function f(a) {", "return", "print >", "x[1", " ? ", " : ", "BEGIN", "END", "printf(", "`",
}

// mutate returns a variant of a window of src around a random offset.
func mutate(r *rand.Rand, src []byte, maxWin int) ([]byte, string) {
	lo := 0
	if len(src) > maxWin {
		lo = r.Intn(len(src) - maxWin)
	}
	hi := lo + maxWin
	if hi > len(src) {
		hi = len(src)
	}
	w := append([]byte{}, src[lo:hi]...)
	at := 0
	if len(w) > 0 {
		at = r.Intn(len(w) + 1)
	}
	switch r.Intn(5) {
	case 0: // truncate
		return w[:at], "truncate"
	case 1: // delete a span
		n := 1 + r.Intn(6)
		if at+n > len(w) {
			n = len(w) - at
		}
		return append(w[:at:at], w[at+n:]...), "delete"
	case 2: // replace one byte
		if len(w) == 0 {
			return w, "none"
		}
		if at == len(w) {
			at--
		}
		repl := []byte("\n\r\\\"/1e.+ \xc3){;\x00")
		w[at] = repl[r.Intn(len(repl))]
		return w, "replace"
	default: // insert a token / separator snippet
		sn := snippets[r.Intn(len(snippets))]
		out := append(w[:at:at], sn...)
		return append(out, w[at:]...), "insert"
	}
}

// bigSources builds a few sources of 8-32 KiB (few, long lines: the
// specification's line table is computed line by line).
func bigSources(r *rand.Rand, k int) []source {
	unit := []string{"x = 1e ", "((((", "a[1][", "{ if (x) { ", "y = \"s\\t\" 1e+ ", "f(g(h(", "1 + 2 * - ! $", "\xc3\xa9 = /re/ ~ ", "\"abc"}
	var out []source
	for i := 0; i < k; i++ {
		u := unit[r.Intn(len(unit))]
		size := 8*1024 + r.Intn(24*1024)
		b := []byte("BEGIN { ")
		nextNL := 700 + r.Intn(600)
		for len(b) < size {
			b = append(b, u...)
			if len(b) > nextNL {
				b = append(b, []string{"\n", "\r\n", "\\\n", "1e\n"}[r.Intn(4)]...)
				nextNL = len(b) + 700 + r.Intn(600)
			}
		}
		if r.Intn(2) == 0 {
			b = append(b, " }\n"...)
		}
		out = append(out, source{"big:" + strconv.Quote(u), b})
	}
	return out
}

// errorSiteSources: one small source (and a variant further down the file, with CRLF line ends) per place where the
// parser, the resolver or the compiler can refuse a syntactically plausible program -- the errors raised AFTER the
// grammar was satisfied carry positions computed elsewhere than in the lexer -- and per position in which a constant
// is compiled as a regular expression.  They are always part of the pool.
func errorSiteSources() []source {
	base := []string{
		// parser: context checks
		`BEGIN { break }`, `BEGIN { continue }`, `BEGIN { next }`, `END { nextfile }`, `function f() { next } BEGIN { f() }`,
		`BEGIN { return 1 }`, `{ return }`, `function f(a) { function g() {} }`, `function f(f) { }`, `function f(a, a) { }`,
		`BEGIN { printf }`, `BEGIN { for (x in a b) ; }`, `BEGIN { for (x in) ; }`, `BEGIN { @"x" = 1 }`, `BEGIN { print a[] }`,
		`BEGIN { x = (1, 2) }`, `BEGIN { (1, 2)
 (3, 4) }`, `BEGIN { getline < }`, `BEGIN { x = 1 +* 2 }`,
		// resolver: names and types
		`function ARGV(k) { return k } BEGIN { print ARGV(1) }`, `function ENVIRON(k) { return k }`, `function FIELDS() { }`,
		`function NR() { }`, `function x() { } BEGIN { x = 1 }`, `BEGIN { x = 1 } function x() { }`, `function f() { } function f() { }`,
		`function f(a) { a() }`, `BEGIN { g(1) }`, `function f(a) { } BEGIN { f(1, 2) }`, `function f(a) { a[1] = 1 } BEGIN { f(1 + 1) }`,
		`function f(a) { a[1] = 1 } BEGIN { x = 1; f(x) }`, `function f(a) { return a + 1 } BEGIN { x[1] = 1; f(x) }`,
		`BEGIN { x[1] = 1; x = 2 }`, `BEGIN { x = 1; x[1] = 2 }`, `BEGIN { split("a", NR) }`, `BEGIN { length(x); x[1] }`,
		`function f(a) { return length(a) } BEGIN { print f(1); x[1] = 1; print f(x) }`, `function f(a) { g(a) } function g(b) { b[1] } BEGIN { f(1) }`,
		`BEGIN { $ENVIRON = 1 }`, `BEGIN { ARGV = 1 }`, `BEGIN { for (k in NR) ; }`, `BEGIN { delete NF }`, `BEGIN { x in NR }`,
		// constants compiled as regular expressions
		`$1 ~ "c++" { n++ }`, `$1 !~ "(" { n++ }`, `BEGIN { if ("a" ~ "[z-a]") x = 1 }`, `BEGIN { match("a", "(") }`, `BEGIN { split("a", b, "[") }`,
		`BEGIN { sub("*", "x") }`, `BEGIN { gsub("a{2,1}", "x") }`, `BEGIN { x = "a" ~ "\\" }`, `/(/ { }`, `/[/ { }`, `/a{2,1}/`, `!/)/`,
		`BEGIN { if (/+/) x = 1 }`, `BEGIN { x = $0 ~ /a(/ }`, `BEGIN { FS = "(" } { print $1 }`, `BEGIN { RS = "[a" } { print }`,
		"/caf\xc3/ { print }", "BEGIN { if (!/\xff/) x = 1 }", "$0 ~ \"\xff(\"", `BEGIN { x = "a" ~ /\y/ }`,
		// an error site reached AFTER a valid use of the same name (checks that are remembered per name, not per site)
		`function f(x) { return x } BEGIN { print f(1); print f(1, 2) }`, `function f(x) { return x } BEGIN { print f(1, 2); print f(1) }`,
		`function f(a) { a[1] = 1 } BEGIN { f(x); f(x, 1, 2) }`, `function f(x) { return x } function g(y) { return f(y) f(y, y, y) } BEGIN { print f(1) }`,
		`function f(x, y) { return x } BEGIN { f(); f(1); f(1, 2); f(1, 2, 3) }`, `BEGIN { x = 1; print x; x[1] = 2 }`, `BEGIN { print length(a); a[1]; print length(a); a = 1 }`,
		`BEGIN { print substr("a", 1); print substr("a", 1, 2, 3) }`, `BEGIN { print "a" ~ "b"; print "a" ~ "(" }`, `BEGIN { sub("a", "x"); sub("a(", "x") }`,
		// valid neighbours (must be accepted)
		`$1 ~ "c+" { n++ }`, `function argv(k) { return k } BEGIN { print argv(1) }`, `BEGIN { if (0) break }`,
	}
	var out []source
	for i, b := range base {
		out = append(out, source{fmt.Sprintf("error-site:%d", i), []byte(b)})
		out = append(out, source{fmt.Sprintf("error-site:%d/shifted", i), []byte("# c\r\nBEGIN { y = 1 }\r\n\r\n  " + b + "\r\n")})
		out = append(out, source{fmt.Sprintf("error-site:%d/after-function", i), []byte("function zz(p,\n  q) { return p q }\n" + b)})
	}
	return out
}

// pool of sources for the given seed: whole corpus programs and embedded test
// sources (sampled), and nmut mutated windows.
func pool(seed int64, nwhole, nmut, nbig int, maxWin int) []source {
	r := rand.New(rand.NewSource(seed))
	corp := corpusFiles()
	emb := embeddedSources()
	if len(corp) == 0 {
		panic("no corpus under " + repoDir() + "/testdata")
	}
	all := append(append([]source{}, corp...), emb...)
	var out []source
	perm := r.Perm(len(all))
	for _, i := range perm {
		if len(out) >= nwhole {
			break
		}
		if len(all[i].text) <= 12*1024 {
			out = append(out, all[i])
		}
	}
	for i := 0; i < nmut; i++ {
		s := all[r.Intn(len(all))]
		m, how := mutate(r, s.text, maxWin)
		out = append(out, source{s.origin + "#" + how, m})
	}
	out = append(out, bigSources(r, nbig)...)
	out = append(out, errorSiteSources()...)
	return out
}

// Record lexes and parses the pool with the real code and writes the
// observations for Trace_Lexer.tla.
func Record(seed int64, n int, out string) (int, error) {
	f, err := os.Create(out)
	if err != nil {
		return 0, err
	}
	defer f.Close()
	w := bufio.NewWriter(f)
	defer w.Flush()
	emit := func(v any) {
		b, _ := json.Marshal(v)
		w.Write(b)
		w.WriteByte('\n')
	}
	r := rand.New(rand.NewSource(seed + 7))
	nbig := 1 + n/200
	srcs := pool(seed, n/3, n-n/3-nbig, nbig, 400)
	for _, s := range srcs {
		big := strings.HasPrefix(s.origin, "big:")
		rx := !big && bytes.IndexByte(s.text, '/') >= 0 && r.Intn(3) == 0
		emit(map[string]any{"ev": "reset"})
		emit(map[string]any{"ev": "src", "src": hx.FromBytes(s.text), "rx": rx, "origin": s.origin})
		if !big {
			toks, pv, _ := LexReal(s.text, rx)
			for _, t := range toks {
				emit(map[string]any{"ev": "step", "k": t.Class, "line": t.Line, "col": t.Col})
			}
			if pv != nil {
				emit(map[string]any{"ev": "step", "k": "lex-panic", "val": fmt.Sprint(pv), "line": 0, "col": 0})
			}
		}
		emit(parseEvent(s.text))
	}
	return len(srcs), nil
}

func parseEvent(src []byte) map[string]any {
	err, pv, stk := ParseReal(src)
	switch {
	case pv != nil:
		return map[string]any{"ev": "step", "k": "parse-panic", "val": fmt.Sprint(pv), "site": PanicSite(stk), "line": 0, "col": 0}
	case err == nil:
		return map[string]any{"ev": "step", "k": "parse-ok", "line": 0, "col": 0}
	}
	if pe, ok := err.(*parser.ParseError); ok {
		return map[string]any{"ev": "step", "k": "parse-error", "line": pe.Position.Line, "col": pe.Position.Column}
	}
	return map[string]any{"ev": "step", "k": "parse-other-error", "line": 0, "col": 0}
}

// CorpusMode writes sources for Gen_LexerFile: `vreplay C03 corpus -seed S -n N -out srcs.ndjson`.
func CorpusMode(args []string) int {
	fs := flag.NewFlagSet("corpus", flag.ExitOnError)
	seed := fs.Int64("seed", 1, "seed")
	n := fs.Int("n", 100, "number of sources")
	out := fs.String("out", "", "output ndjson")
	fs.Parse(args)
	f, err := os.Create(*out)
	if err != nil {
		fmt.Fprintln(os.Stderr, err)
		return 2
	}
	defer f.Close()
	w := bufio.NewWriter(f)
	defer w.Flush()
	srcs := pool(*seed+1000003, *n/10, *n-*n/10, 0, 240)
	k := 0
	for _, s := range srcs {
		if len(s.text) > 1500 {
			continue
		}
		for _, rx := range []bool{false, true} {
			if rx && bytes.IndexByte(s.text, '/') < 0 {
				continue
			}
			b, _ := json.Marshal(map[string]any{"src": hx.FromBytes(s.text), "rx": rx})
			w.Write(b)
			w.WriteByte('\n')
			k++
		}
	}
	fmt.Printf("wrote %d sources\n", k)
	return 0
}
