// Package c06 binds spec/Record.tla to the real interpreter: histories of
// record operations exported by TLC (Gen_Record) are rendered to AWK programs,
// run, and the record state observed after every step is compared with the
// specification's prediction; in the other direction a seeded driver records
// long random histories from the real code for Trace_Record.tla to validate.
package c06

import (
	"bytes"
	"encoding/json"
	"fmt"
	"strings"

	"github.com/benhoyt/goawk/verifharness/hx"
)

type FS struct {
	K string          `json:"k"`
	C int             `json:"c,omitempty"`
	R json.RawMessage `json:"r,omitempty"`
}

type Act struct {
	Op   string `json:"op"`
	S    hx.BS  `json:"s,omitempty"`
	K    int    `json:"k"`
	V    hx.BS  `json:"v,omitempty"`
	M    int    `json:"m"`
	Src  string `json:"src,omitempty"`
	Fsv  *FS    `json:"fsv,omitempty"`
	Text hx.BS  `json:"text,omitempty"`
	Md   string `json:"md,omitempty"`
	// augf: D; subf: Gl, Text (the regex as the specification renders it), Rp
	D  int   `json:"d,omitempty"`
	Gl bool  `json:"gl,omitempty"`
	Rp hx.BS `json:"rp,omitempty"`
}

type Obs struct {
	NF     int     `json:"nf"`
	Line   hx.BS   `json:"line"`
	Fields []hx.BS `json:"fields"`
}

type Step struct {
	Act  Act   `json:"act"`
	Obs  Obs   `json:"obs"`
	Read hx.BS `json:"read"`
	Err  bool  `json:"err"`
	// Lenient: a negative index that designates no field; the specification predicts "nothing
	// changes", an error is accepted as well (the statement leaves that open)
	Lenient bool `json:"lenient"`
}

type History struct {
	Fam   string `json:"fam"`
	Steps []Step `json:"steps"`
}

const dumpFunc = `
function dump(  i) {
  printf "D%s:", NF
  printf "%d:%s", length($0), $0
  for (i = 1; i <= NF; i++) printf "%d:%s", length($i), $i
  printf "\n"
}
function rd(v) { printf "R%d:%s\n", length(v), v }
`

func expectDump(o Obs) string {
	var sb strings.Builder
	fmt.Fprintf(&sb, "D%d:", o.NF)
	sb.WriteString(hx.LP(o.Line.Bytes()))
	for _, f := range o.Fields {
		sb.WriteString(hx.LP(f.Bytes()))
	}
	sb.WriteByte('\n')
	return sb.String()
}

func srcOrInt(src string, n int) string {
	if src != "" {
		return src
	}
	return fmt.Sprint(n)
}

// stmt renders one operation instance as an AWK statement.
func stmt(a Act) (string, []byte, bool) {
	switch a.Op {
	case "read":
		return "getline", append(a.S.Bytes(), '\n'), true
	case "set0":
		return "$0 = " + hx.AwkString(a.S.Bytes()), nil, true
	case "setf":
		return "$(" + srcOrInt(a.Src, a.K) + ") = " + hx.AwkString(a.V.Bytes()), nil, true
	case "setnf":
		return "NF = " + srcOrInt(a.Src, a.M), nil, true
	case "setfs":
		return "FS = " + hx.AwkString(a.Text.Bytes()), nil, true
	case "setofs":
		return "OFS = " + hx.AwkString(a.S.Bytes()), nil, true
	case "setom":
		md := a.Md
		if md == "default" {
			md = ""
		}
		return "OUTPUTMODE = " + hx.AwkString([]byte(md)), nil, true
	case "getf":
		return "rd($(" + srcOrInt(a.Src, a.K) + "))", nil, true
	case "getnf":
		return "rd(NF)", nil, true
	case "incr":
		return fmt.Sprintf("$(%d)++", a.K), nil, true
	case "augf":
		return fmt.Sprintf("$(%d) += %d", a.K, a.D), nil, true
	case "subf":
		f := "sub"
		if a.Gl {
			f = "gsub"
		}
		return fmt.Sprintf("rd(%s(/%s/, %s, $(%d)))", f, a.Text.Bytes(), hx.AwkString(a.Rp.Bytes()), a.K), nil, true
	case "getlinef":
		return fmt.Sprintf("getline $(%d)", a.K), append(a.S.Bytes(), '\n'), true
	}
	return "", nil, false
}

func isRead(op string) bool { return op == "getf" || op == "getnf" || op == "subf" }

func argClass(a Act) string {
	src := a.Src
	switch {
	case src == "":
		return "plain"
	case strings.HasPrefix(src, "\""):
		return "string"
	case strings.Contains(src, "^") || strings.Contains(src, "log"):
		return "beyond-every-integer"
	case strings.Contains(src, "."):
		return "fractional"
	case strings.Contains(src, "NF"):
		return "relative"
	case strings.HasPrefix(src, "-"):
		return "negative"
	case len(src) >= 7:
		return "beyond-limit"
	}
	return "integer"
}

// Seg is one expected piece of output and the step that produces it.
type Seg struct {
	Step int
	Kind string // "read" or "dump"
	Text string
}

// Render builds the program for a history.  everyStep selects between the
// two renderings: dump after every step, or only after the last one (which
// leaves the implementation's lazy splitting undisturbed in between).
func Render(h *History, everyStep bool) (prog string, input []byte, segs []Seg, expErr bool, ok bool) {
	var sb strings.Builder
	sb.WriteString("BEGIN {\n")
	for i, st := range h.Steps {
		s, in, good := stmt(st.Act)
		if !good {
			return "", nil, nil, false, false
		}
		input = append(input, in...)
		sb.WriteString("  " + s + "\n")
		if st.Err {
			expErr = true
			break
		}
		if isRead(st.Act.Op) {
			segs = append(segs, Seg{i, "read", "R" + hx.LP(st.Read.Bytes()) + "\n"})
		}
		if everyStep || i == len(h.Steps)-1 {
			sb.WriteString("  dump()\n")
			segs = append(segs, Seg{i, "dump", expectDump(st.Obs)})
		}
	}
	sb.WriteString("}\n")
	sb.WriteString(dumpFunc)
	return sb.String(), input, segs, expErr, true
}

func joinSegs(segs []Seg) string {
	var sb strings.Builder
	for _, s := range segs {
		sb.WriteString(s.Text)
	}
	return sb.String()
}

// firstDiff locates the step whose expected output is not found in got, and
// which part of it differs.  (Binary safe: segments are matched by offset.)
func firstDiff(h *History, segs []Seg, got string) (int, string) {
	off := 0
	for _, sg := range segs {
		if strings.HasPrefix(got[off:], sg.Text) {
			off += len(sg.Text)
			continue
		}
		k := sg.Kind
		if k == "dump" {
			g, w := got[off:], sg.Text
			gi, wi := strings.Index(g, ":"), strings.Index(w, ":")
			if off >= len(got) {
				k = "missing-output"
			} else if gi > 0 && wi > 0 && g[:gi] != w[:wi] {
				k = "nf"
			} else {
				k = "text"
			}
		}
		return sg.Step, k
	}
	return len(h.Steps) - 1, "extra-output"
}

func nontrivial(h *History) bool {
	hasRec, hasMut := false, false
	for _, st := range h.Steps {
		switch st.Act.Op {
		case "read", "set0":
			hasRec = true
		case "setf", "setnf", "incr", "augf", "subf", "getlinef", "setfs", "setofs", "setom":
			hasMut = true
		}
	}
	return hasRec && hasMut
}

// Replay is the hx.Replayer for Gen_Record exports.
func Replay(raw json.RawMessage) hx.Outcome {
	var h History
	if err := json.Unmarshal(raw, &h); err != nil || len(h.Steps) == 0 {
		return hx.Outcome{Skipped: true, Note: "bad case"}
	}
	for _, every := range []bool{true, false} {
		prog, input, segs, expErr, ok := Render(&h, every)
		if !ok {
			return hx.Outcome{Skipped: true, Note: "unknown op"}
		}
		want := joinSegs(segs)
		res := hx.RunAwk(prog, input, nil, nil)
		mode := "every-step"
		if !every {
			mode = "final-only"
		}
		if res.Panic != nil {
			return hx.Fail("C06/panic", fmt.Sprintf("panic: %v", res.Panic), nil, res.PanicStk, prog)
		}
		if res.ParseErr != nil {
			return hx.Outcome{Skipped: true, Note: "generated program rejected: " + res.ParseErr.Error()}
		}
		if !bytes.Equal(res.Stdout, []byte(want)) {
			idx, kind := firstDiff(&h, segs, string(res.Stdout))
			if h.Steps[idx].Lenient && res.Err != nil && strings.HasPrefix(want, string(res.Stdout)) {
				continue // the run ended with an error at the out-of-range negative index: allowed
			}
			a := h.Steps[idx].Act
			sig := fmt.Sprintf("C06/%s/%s/%s", a.Op, kind, argClass(a))
			return hx.Fail(sig, fmt.Sprintf("[%s] record state after step %d (%s) differs", mode, idx+1, a.Op), want, string(res.Stdout), prog)
		}
		if expErr != (res.Err != nil) {
			last := h.Steps[len(h.Steps)-1]
			sig := fmt.Sprintf("C06/%s/error-outcome/%s", last.Act.Op, argClass(last.Act))
			return hx.Fail(sig, fmt.Sprintf("[%s] spec error=%v, real error=%v", mode, expErr, res.Err), want, string(res.Stdout), prog)
		}
	}
	return hx.OK(nontrivial(&h))
}
