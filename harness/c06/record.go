package c06

import (
	"bufio"
	"encoding/json"
	"fmt"
	"math/rand"
	"os"
	"strconv"
	"strings"

	"github.com/benhoyt/goawk/verifharness/hx"
)

// ---- regex / FS menu shared with the specification (AST as JSON + text) ----

type re = map[string]any

func lit(c byte) re      { return re{"k": "lit", "c": int(c)} }
func cat(a, b re) re     { return re{"k": "cat", "l": a, "r": b} }
func alt(a, b re) re     { return re{"k": "alt", "l": a, "r": b} }
func star(a re) re       { return re{"k": "star", "r": a} }
func plus(a re) re       { return re{"k": "plus", "r": a} }
func opt(a re) re        { return re{"k": "opt", "r": a} }
func cls(cs ...byte) re {
	s := []int{}
	for _, c := range cs {
		s = append(s, int(c))
	}
	return re{"k": "cls", "set": s}
}

// renderRe mirrors Regex!Render (fully parenthesised); Trace_Record asserts
// that the text recorded here equals the specification's own rendering.
func renderRe(r re) string {
	switch r["k"] {
	case "lit":
		c := byte(r["c"].(int))
		if strings.ContainsRune(`\.+*?()|[]{}^$/`, rune(c)) {
			return `\` + string(c)
		}
		return string(c)
	case "cat":
		return renderRe(r["l"].(re)) + renderRe(r["r"].(re))
	case "alt":
		return "(" + renderRe(r["l"].(re)) + "|" + renderRe(r["r"].(re)) + ")"
	case "star":
		return "(" + renderRe(r["r"].(re)) + ")*"
	case "plus":
		return "(" + renderRe(r["r"].(re)) + ")+"
	case "opt":
		return "(" + renderRe(r["r"].(re)) + ")?"
	case "cls":
		s := "["
		for _, c := range r["set"].([]int) {
			s += string(byte(c))
		}
		return s + "]"
	}
	panic("renderRe")
}

type fsChoice struct {
	fsv  map[string]any
	text string
}

func fsMenu() []fsChoice {
	m := []fsChoice{
		{map[string]any{"k": "space"}, " "},
	}
	for _, c := range []byte{',', ':', '\t', '|', 'b', ';'} {
		m = append(m, fsChoice{map[string]any{"k": "char", "c": int(c)}, string(c)})
	}
	for _, r := range []re{
		cat(lit(','), star(lit(' '))),
		alt(lit('a'), cat(lit('a'), lit('b'))),
		star(lit('b')),
		plus(cls(',', ':')),
		opt(lit('a')),
		cat(lit(':'), opt(lit(':'))),
		alt(cat(lit(','), lit(',')), lit(';')),
		plus(alt(lit(' '), lit(','))),
		cat(lit('a'), cat(star(lit('b')), lit('a'))),
	} {
		m = append(m, fsChoice{map[string]any{"k": "re", "r": r}, renderRe(r)})
	}
	return m
}

var alphabet = []byte{'a', 'b', 'x', ' ', ',', ':', ';', '1', '2', '\t', '"'}

func randText(r *rand.Rand, maxLen int, allowNL bool) []byte {
	n := r.Intn(maxLen + 1)
	b := make([]byte, n)
	for i := range b {
		b[i] = alphabet[r.Intn(len(alphabet))]
		if allowNL && r.Intn(15) == 0 {
			b[i] = '\n'
		}
	}
	return b
}

type recStep struct {
	act   map[string]any
	stmt  string // AWK statement(s); prints marker "X1\n" when executed, "X0\n" when its guard was false
	input []byte
}

func genStep(r *rand.Rand, fss []fsChoice) recStep {
	x1 := `; printf "X1\n"`
	switch k := r.Intn(100); {
	case k < 14:
		s := randText(r, 14, false)
		return recStep{map[string]any{"op": "read", "s": hx.FromBytes(s)}, "getline" + x1, append(append([]byte{}, s...), '\n')}
	case k < 22:
		s := randText(r, 12, true)
		return recStep{map[string]any{"op": "set0", "s": hx.FromBytes(s)}, "$0 = " + hx.AwkString(s) + x1, nil}
	case k < 42:
		idx := r.Intn(10)
		v := randText(r, 4, false)
		return recStep{map[string]any{"op": "setf", "k": idx, "v": hx.FromBytes(v)},
			fmt.Sprintf("$(%d) = %s", idx, hx.AwkString(v)) + x1, nil}
	case k < 48:
		idx := -(1 + r.Intn(3))
		v := randText(r, 3, false)
		return recStep{map[string]any{"op": "setf", "k": idx, "v": hx.FromBytes(v)},
			fmt.Sprintf("if (NF >= %d) { $(%d) = %s%s } else printf \"X0\\n\"", -idx, idx, hx.AwkString(v), x1), nil}
	case k < 58:
		m := r.Intn(9)
		return recStep{map[string]any{"op": "setnf", "m": m}, fmt.Sprintf("NF = %d", m) + x1, nil}
	case k < 68:
		f := fss[r.Intn(len(fss))]
		return recStep{map[string]any{"op": "setfs", "fsv": f.fsv, "text": hx.FromBytes([]byte(f.text))},
			"FS = " + hx.AwkString([]byte(f.text)) + x1, nil}
	case k < 76:
		o := [][]byte{[]byte(" "), []byte("-"), {}, []byte(", "), []byte("::"), []byte("\t")}[r.Intn(6)]
		return recStep{map[string]any{"op": "setofs", "s": hx.FromBytes(o)}, "OFS = " + hx.AwkString(o) + x1, nil}
	case k < 80:
		md := []string{"default", "csv", "tsv"}[r.Intn(3)]
		s := md
		if s == "default" {
			s = ""
		}
		return recStep{map[string]any{"op": "setom", "md": md}, "OUTPUTMODE = " + hx.AwkString([]byte(s)) + x1, nil}
	case k < 90:
		idx := r.Intn(12)
		return recStep{map[string]any{"op": "getf", "k": idx}, fmt.Sprintf("rd($(%d))", idx) + x1, nil}
	case k < 91 && r.Intn(3) == 0:
		// sub / gsub on a field or on $0: an assignment iff something was replaced
		idx := r.Intn(6)
		rx := []re{lit('b'), star(lit('x')), cat(lit('a'), opt(lit(' '))), lit(','), plus(cls(',', ':'))}[r.Intn(5)]
		rp := [][]byte{[]byte("&"), []byte("q"), {}, []byte("&,&"), []byte("x y")}[r.Intn(5)]
		gl := r.Intn(2) == 0
		f := "sub"
		if gl {
			f = "gsub"
		}
		return recStep{map[string]any{"op": "subf", "k": idx, "gl": gl, "re": rx, "rp": hx.FromBytes(rp), "text": hx.FromBytes([]byte(renderRe(rx)))},
			fmt.Sprintf("rd(%s(/%s/, %s, $(%d)))", f, renderRe(rx), hx.AwkString(rp), idx) + x1, nil}
	case k < 92 && r.Intn(2) == 0:
		idx := r.Intn(6)
		s := randText(r, 8, false)
		return recStep{map[string]any{"op": "getlinef", "k": idx, "s": hx.FromBytes(s)}, fmt.Sprintf("getline $(%d)", idx) + x1, append(append([]byte{}, s...), '\n')}
	case k < 93:
		idx := -(1 + r.Intn(3))
		return recStep{map[string]any{"op": "getf", "k": idx},
			fmt.Sprintf("if (NF >= %d) { rd($(%d))%s } else printf \"X0\\n\"", -idx, idx, x1), nil}
	case k < 96:
		return recStep{map[string]any{"op": "getnf"}, "rd(NF)" + x1, nil}
	case k >= 98:
		idx := 1 + r.Intn(4)
		return recStep{map[string]any{"op": "augf", "k": idx, "d": 2},
			fmt.Sprintf("if ($(%d) ~ /^[12][12]?$/ || $(%d) ~ /^[abx,:]*$/) { $(%d) += 2%s } else printf \"X0\\n\"", idx, idx, idx, x1), nil}
	default:
		idx := 1 + r.Intn(4)
		return recStep{map[string]any{"op": "incr", "k": idx},
			fmt.Sprintf("if ($(%d) ~ /^[12][12]?$/ || $(%d) ~ /^[abx,:]*$/) { $(%d)++%s } else printf \"X0\\n\"", idx, idx, idx, x1), nil}
	}
}

// parseLP reads <len>:<bytes> at s[off:].
func parseLP(s string, off int) ([]byte, int, bool) {
	j := strings.IndexByte(s[off:], ':')
	if j < 0 {
		return nil, off, false
	}
	n, err := strconv.Atoi(s[off : off+j])
	if err != nil || off+j+1+n > len(s) {
		return nil, off, false
	}
	return []byte(s[off+j+1 : off+j+1+n]), off + j + 1 + n, true
}

// Record drives the real interpreter through n random histories and writes
// what it observed as events for Trace_Record.tla.
func Record(seed int64, n int, out string) (int, error) {
	r := rand.New(rand.NewSource(seed))
	fss := fsMenu()
	f, err := os.Create(out)
	if err != nil {
		return 0, err
	}
	defer f.Close()
	w := bufio.NewWriter(f)
	defer w.Flush()
	emit := func(v any) {
		b, _ := json.Marshal(v)
		w.Write(b)
		w.WriteByte('\n')
	}
	for t := 0; t < n; t++ {
		nsteps := 10 + r.Intn(30)
		steps := make([]recStep, nsteps)
		var sb strings.Builder
		var input []byte
		sb.WriteString("BEGIN {\n")
		for i := range steps {
			steps[i] = genStep(r, fss)
			input = append(input, steps[i].input...)
			sb.WriteString("  " + steps[i].stmt + "\n  dump()\n")
		}
		sb.WriteString("}\n" + dumpFunc)
		res := hx.RunAwk(sb.String(), input, nil, nil)
		if res.ParseErr != nil || res.Panic != nil {
			return t, fmt.Errorf("driver program failed: %v %v\n%s", res.ParseErr, res.Panic, sb.String())
		}
		outS := string(res.Stdout)
		off := 0
		emit(map[string]any{"ev": "reset"})
		for i := range steps {
			// optional read line, marker line, dump line
			ev := map[string]any{"ev": "step", "act": steps[i].act, "read": hx.BS{}}
			if off >= len(outS) {
				if res.Err != nil {
					ev["ev"] = "error"
					emit(ev)
				}
				break
			}
			if outS[off] == 'R' {
				b, no, ok := parseLP(outS, off+1)
				if !ok {
					return t, fmt.Errorf("cannot parse read output at %d", off)
				}
				ev["read"] = hx.FromBytes(b)
				off = no + 1
			}
			if !strings.HasPrefix(outS[off:], "X") {
				if res.Err != nil && off >= len(outS) {
					ev["ev"] = "error"
					emit(ev)
					break
				}
				return t, fmt.Errorf("missing marker at %d in %q", off, outS)
			}
			executed := outS[off+1] == '1'
			off += 3
			// dump
			if off >= len(outS) || outS[off] != 'D' {
				return t, fmt.Errorf("missing dump at %d", off)
			}
			j := strings.IndexByte(outS[off:], ':')
			nfText := outS[off+1 : off+j]
			off += j + 1
			line, no, ok := parseLP(outS, off)
			if !ok {
				return t, fmt.Errorf("bad dump")
			}
			off = no
			fields := []hx.BS{}
			for off < len(outS) && outS[off] != '\n' {
				var fb []byte
				fb, off, ok = parseLP(outS, off)
				if !ok {
					return t, fmt.Errorf("bad dump field")
				}
				fields = append(fields, hx.FromBytes(fb))
			}
			off++ // newline
			if !executed {
				continue // guard was false: the operation did not happen, nothing to validate
			}
			ev["obs"] = map[string]any{"nf": hx.FromBytes([]byte(nfText)), "line": hx.FromBytes(line), "fields": fields}
			emit(ev)
		}
	}
	return n, nil
}
