package c10

import (
	"bufio"
	"flag"
	"encoding/json"
	"fmt"
	"math"
	"math/rand"
	"os"
	"strconv"
	"strings"

	"github.com/benhoyt/goawk/interp"
	"github.com/benhoyt/goawk/verifharness/hx"
)

// ---- regex menu of the driver: AST (as Builtins.tla reads it) + source text ----

type re = map[string]any

func lit(c byte) re  { return re{"k": "lit", "c": int(c)} }
func cat(a, b re) re { return re{"k": "cat", "l": a, "r": b} }
func alt(a, b re) re { return re{"k": "alt", "l": a, "r": b} }
func star(a re) re   { return re{"k": "star", "r": a} }
func plus(a re) re   { return re{"k": "plus", "r": a} }
func opt(a re) re    { return re{"k": "opt", "r": a} }
func cls(cs ...byte) re {
	s := []int{}
	for _, c := range cs {
		s = append(s, int(c))
	}
	return re{"k": "cls", "set": s}
}

var (
	dot    = re{"k": "dot"} // Builtins!DotU: one whole character
	eps    = re{"k": "eps"}
	bol    = re{"k": "bol"}
	eol    = re{"k": "eol"}
	eacute = cat(lit(0xC3), lit(0xA9))
)

// renderRe mirrors Builtins!RenderB; Trace_Builtins asserts that the text
// recorded here equals the specification's own rendering of the AST.
func renderRe(r re) string {
	switch r["k"] {
	case "lit":
		c := byte(r["c"].(int))
		if strings.IndexByte(`\.+*?()|[]{}^$/`, c) >= 0 {
			return `\` + string([]byte{c})
		}
		return string([]byte{c})
	case "dot":
		return "."
	case "eps":
		return "()"
	case "bol":
		return "^"
	case "eol":
		return "$"
	case "cat":
		return renderRe(r["l"].(re)) + renderRe(r["r"].(re))
	case "alt":
		return "(" + renderRe(r["l"].(re)) + "|" + renderRe(r["r"].(re)) + ")"
	case "star":
		return "(" + renderRe(r["r"].(re)) + ")*"
	case "plus":
		return "(" + renderRe(r["r"].(re)) + ")+"
	case "opt":
		return "(" + renderRe(r["r"].(re)) + ")?"
	case "cls":
		s := "["
		for _, c := range r["set"].([]int) {
			s += string([]byte{byte(c)})
		}
		return s + "]"
	}
	panic("renderRe")
}

func regexMenu() []re {
	a, b := lit('a'), lit('b')
	return []re{
		star(b), alt(a, cat(a, b)), opt(a), eol, plus(cls('a', 'b')), dot, eps, bol,
		cat(a, plus(b)), plus(eacute), cat(star(alt(a, b)), b), cat(bol, star(a)), cat(b, eol), star(dot), a,
		cat(dot, opt(b)), cat(b, cat(star(a), b)), alt(cat(a, a), cat(a, cat(a, a))), plus(alt(eacute, b)),
		cat(opt(eacute), a), cat(cat(dot, dot), eol), alt(b, eps), cat(a, star(cat(dot, a))),
	}
}

// separators that match no empty string
func sepReMenu() []re {
	a, b := lit('a'), lit('b')
	return []re{cat(a, plus(b)), plus(cls('a', 'b')), alt(a, cat(a, b)), plus(eacute), cat(b, opt(a)), cat(dot, b)}
}

var units = [][]byte{{'a'}, {'b'}, {0xC3, 0xA9}, {0xFF}, {' '}}

func randSubject(r *rand.Rand, maxUnits int, ascii bool) []byte {
	n := r.Intn(maxUnits + 1)
	var out []byte
	for i := 0; i < n; i++ {
		k := len(units) - 1
		if ascii {
			k = 2
		}
		if r.Intn(12) == 0 {
			out = append(out, ' ') // a blank now and then, for split on " "
			continue
		}
		// favour a and b so that patterns match often
		if r.Intn(3) == 0 {
			out = append(out, units[r.Intn(2)]...)
		} else {
			out = append(out, units[r.Intn(k)]...)
		}
	}
	return out
}

// core: the driver stays away from the numbers beyond the int64 range (+-1e30,
// +-inf), so that the traces exercise everything else to their end even while
// the overflow defects (known findings) are present.
var core bool

func randNum(r *rand.Rand, matched, allowNone bool) Num {
	x := randNum1(r, matched, allowNone)
	for core && (x.K == "huge" || x.K == "inf") {
		x = randNum1(r, matched, allowNone)
	}
	return x
}

func randNum1(r *rand.Rand, matched, allowNone bool) Num {
	switch k := r.Intn(100); {
	case k < 50:
		return Num{"fin", 2 * (r.Intn(18) - 3)}
	case k < 62:
		return Num{"fin", 2*(r.Intn(12)-3) + 1}
	case k < 68:
		return Num{"huge", 1 - 2*r.Intn(2)}
	case k < 72:
		return Num{"inf", 1 - 2*r.Intn(2)}
	case k < 76:
		return Num{[]string{"big", "bigh"}[r.Intn(2)], 1 - 2*r.Intn(2)}
	case k < 88 && matched:
		return Num{[]string{"rstart", "rlength"}[r.Intn(2)], 0}
	case k < 94 && allowNone:
		return Num{"none", 0}
	}
	return Num{"fin", 2 * (1 + r.Intn(6))}
}

func randRepl(r *rand.Rand) []byte {
	toks := []string{"&", `\&`, "x", "a", "-", "é"}
	n := r.Intn(4)
	var out []byte
	for i := 0; i < n; i++ {
		out = append(out, toks[r.Intn(len(toks))]...)
	}
	return out
}

type recCall struct {
	act  map[string]any
	stmt string
}

func numJ(x Num) map[string]any { return map[string]any{"k": x.K, "v": x.V} }

func genCall(r *rand.Rand, regs, seps []re, matched, ascii bool) recCall {
	switch k := r.Intn(100); {
	case k < 8:
		s := randSubject(r, 12, ascii)
		return recCall{map[string]any{"op": "set", "s": hx.FromBytes(s)}, "t = " + hx.AwkString(s) + `; r = ""`}
	case k < 24:
		rx := regs[r.Intn(len(regs))]
		txt := renderRe(rx)
		return recCall{map[string]any{"op": "match", "r": rx, "text": hx.FromBytes([]byte(txt))},
			"r = match(t, " + reSrc([]byte(txt), r.Intn(2) == 0) + `) ""`}
	case k < 50:
		m, n := randNum(r, matched, false), randNum(r, matched, true)
		a := Act{Op: "substr", M: &m, N: &n}
		s, _ := stmt(&a, nil, false)
		return recCall{map[string]any{"op": "substr", "m": numJ(m), "n": numJ(n)}, s}
	case k < 58:
		p := randSubject(r, 2, ascii)
		if len(p) == 0 {
			p = []byte("b")
		}
		return recCall{map[string]any{"op": "index", "pat": hx.FromBytes(p)}, "r = index(t, " + hx.AwkString(p) + `) ""`}
	case k < 68:
		if r.Intn(3) == 0 {
			rx := seps[r.Intn(len(seps))]
			txt := renderRe(rx)
			return recCall{map[string]any{"op": "split", "sep": map[string]any{"k": "re", "r": rx}, "text": hx.FromBytes([]byte(txt))},
				"n = split(t, A, " + reSrc([]byte(txt), r.Intn(2) == 0) + `); r = n ""`}
		}
		if r.Intn(5) == 0 {
			return recCall{map[string]any{"op": "split", "sep": map[string]any{"k": "space"}, "text": hx.FromBytes([]byte(" "))},
				`n = split(t, A, " "); r = n ""`}
		}
		c := [][]byte{{'a'}, {'b'}, {0xC3, 0xA9}, {0xFF}, {'.'}, {'x'}}[r.Intn(6)]
		return recCall{map[string]any{"op": "split", "sep": map[string]any{"k": "char", "c": hx.FromBytes(c)}, "text": hx.FromBytes(c)},
			"n = split(t, A, " + hx.AwkString(c) + `); r = n ""`}
	case k < 90:
		op := []string{"sub", "gsub"}[r.Intn(2)]
		rx := regs[r.Intn(len(regs))]
		txt := renderRe(rx)
		rp := randRepl(r)
		return recCall{map[string]any{"op": op, "r": rx, "text": hx.FromBytes([]byte(txt)), "repl": hx.FromBytes(rp)},
			"r = " + op + "(" + reSrc([]byte(txt), r.Intn(2) == 0) + ", " + hx.AwkString(rp) + `, t) ""`}
	case k < 94:
		return recCall{map[string]any{"op": "length"}, lengthStmt}
	}
	x := randNum(r, false, false)
	for x.K == "inf" {
		x = randNum(r, false, false)
	}
	src, _ := numSrc(&x)
	return recCall{map[string]any{"op": "int", "x": numJ(x)}, fmt.Sprintf(`r = sprintf("%%.17g", int(%s))`, src)}
}

// canonNum maps the text of a number printed with %.17g to the source text
// Builtins!NumSrc uses for that value (only for the values the driver uses).
func canonNum(s string) string {
	f, err := strconv.ParseFloat(s, 64)
	if err != nil {
		return s
	}
	switch {
	case f == 1e30:
		return "1e30"
	case f == -1e30:
		return "-1e30"
	case f == 1e15:
		return "1e15"
	case f == -1e15:
		return "-1e15"
	case f == math.Trunc(f) && math.Abs(f) < 1e9:
		return strconv.Itoa(int(f))
	}
	return s
}

func atoiOr(s string, def int) int {
	v, err := strconv.Atoi(s)
	if err != nil {
		return def
	}
	return v
}

// Record drives the real interpreter through n random histories of builtin
// calls and writes what the program observed as events for Trace_Builtins.tla.
func Record(seed int64, n int, out string) (int, error) {
	core = false
	return record(seed, n, out)
}

// RecordCore is the "recordcore" mode: the same driver without numbers beyond
// the int64 range.
func RecordCore(args []string) int {
	fs := flag.NewFlagSet("recordcore", flag.ExitOnError)
	out := fs.String("out", "", "output file")
	seed := fs.Int64("seed", 1, "seed")
	n := fs.Int("n", 100, "number of traces")
	fs.Parse(args)
	core = true
	k, err := record(*seed, *n, *out)
	if err != nil {
		fmt.Fprintln(os.Stderr, err)
		return 2
	}
	fmt.Printf("recorded %d traces\n", k)
	return 0
}

func record(seed int64, n int, out string) (int, error) {
	r := rand.New(rand.NewSource(seed))
	regs, seps := regexMenu(), sepReMenu()
	f, err := os.Create(out)
	if err != nil {
		return 0, err
	}
	defer f.Close()
	w := bufio.NewWriter(f)
	defer w.Flush()
	emit := func(v any) {
		b, _ := json.Marshal(v)
		w.Write(b)
		w.WriteByte('\n')
	}
	for t := 0; t < n; t++ {
		mode := []string{"bytes", "chars"}[r.Intn(2)]
		ascii := r.Intn(5) == 0
		subj := randSubject(r, 12, ascii)
		ncalls := 4 + r.Intn(9)
		calls := make([]recCall, ncalls)
		var sb strings.Builder
		sb.WriteString("BEGIN {\n  delete A\n  t = " + hx.AwkString(subj) + "\n")
		matched := false
		for i := range calls {
			calls[i] = genCall(r, regs, seps, matched, ascii)
			if calls[i].act["op"] == "match" {
				matched = true
			}
			m := 0
			if matched {
				m = 1
			}
			fmt.Fprintf(&sb, "  %s\n  dump(r, %d)\n", calls[i].stmt, m)
		}
		sb.WriteString("}\n" + probeFuncs)
		res := hx.RunAwk(sb.String(), nil, &interp.Config{Chars: mode == "chars"}, nil)
		if res.ParseErr != nil {
			return t, fmt.Errorf("driver program rejected: %v\n%s", res.ParseErr, sb.String())
		}
		emit(map[string]any{"ev": "reset", "mode": mode, "s": hx.FromBytes(subj)})
		lines := strings.SplitAfter(string(res.Stdout), "\n")
		for i := range calls {
			ev := map[string]any{"ev": "step", "act": calls[i].act}
			if res.Panic != nil || i >= len(lines) || !strings.HasSuffix(lines[i], "\n") {
				// the call ended the program (error or panic): nothing the specification allows
				ev["ev"] = "error"
				emit(ev)
				break
			}
			g := parseLine(strings.TrimSuffix(lines[i], "\n"))
			if !g.ok {
				return t, fmt.Errorf("cannot parse dump line %q", lines[i])
			}
			ret := g.ret
			if calls[i].act["op"] == "int" {
				ret = canonNum(ret)
			}
			arr := []hx.BS{}
			for _, p := range g.arr {
				arr = append(arr, hx.FromBytes([]byte(p)))
			}
			ev["obs"] = map[string]any{
				"ret": hx.FromBytes([]byte(ret)), "rstart": atoiOr(g.rstart, -99), "rlength": atoiOr(g.rlength, -99),
				"t": hx.FromBytes([]byte(g.t)), "arr": arr, "count": hx.FromBytes([]byte(g.count)),
			}
			emit(ev)
		}
	}
	return n, nil
}
