// Package c10 binds spec/Builtins.tla to the real interpreter: histories of
// builtin calls (substr, index, match, split, sub, gsub, length, int) exported
// by TLC (Gen_Builtins) are rendered to AWK programs, run in byte mode or in
// character mode, and what the program observes after every call (returned
// value, RSTART, RLENGTH, the target variable, the array filled by split) is
// compared with the specification's prediction.  In the other direction a
// seeded driver records long random histories on longer subjects from the real
// interpreter for Trace_Builtins.tla to validate.
package c10

import (
	"bytes"
	"encoding/json"
	"fmt"
	"os"
	"regexp"
	"strconv"
	"strings"
	"sync"

	"github.com/benhoyt/goawk/interp"
	"github.com/benhoyt/goawk/verifharness/hx"
)

// Num is a symbolic number of Builtins.tla.
type Num struct {
	K string `json:"k"`
	V int    `json:"v"`
}

type Act struct {
	Op   string `json:"op"`
	Re   hx.BS  `json:"re,omitempty"`
	Repl hx.BS  `json:"repl,omitempty"`
	M    *Num   `json:"m,omitempty"`
	N    *Num   `json:"n,omitempty"`
	X    *Num   `json:"x,omitempty"`
	Pat  hx.BS  `json:"pat,omitempty"`
	SepK string `json:"sepk,omitempty"`
	Sep  hx.BS  `json:"sep,omitempty"`
	S    hx.BS  `json:"s,omitempty"`
}

type Obs struct {
	Ret     hx.BS   `json:"ret"`
	RStart  int     `json:"rstart"`
	RLength int     `json:"rlength"`
	T       hx.BS   `json:"t"`
	Arr     []hx.BS `json:"arr"`
}

type Step struct {
	Act  Act      `json:"act"`
	Obs  Obs      `json:"obs"`
	Open bool     `json:"open"`
	Ms   [][2]int `json:"ms"`
	Chg  bool     `json:"chg"`
}

type History struct {
	Fam   string `json:"fam"`
	Mode  string `json:"mode"`
	S     hx.BS  `json:"s"`
	Steps []Step `json:"steps"`
}

// The probe prints, after every call, one line
//
//	ret|RSTART|RLENGTH|t|n/length(A)|A[1]|...|A[n]
//
// ("-" for RSTART and RLENGTH before the first match()).  No value the
// specification predicts contains '|' or a newline (checked), so the line
// equals the expected line exactly when every printed value equals the
// predicted one; the probe does not depend on length() or substr() itself.
const probeFuncs = `
function dump(r, m,  i) {
  printf "%s|%s|%s|%s|%d/%d", r, (m ? RSTART "" : "-"), (m ? RLENGTH "" : "-"), t, n, length(A)
  for (i = 1; i <= n; i++) printf "|%s", A[i]
  printf "\n"
}
`

func numSrc(x *Num) (string, bool) {
	switch x.K {
	case "fin":
		if x.V%2 == 0 {
			return strconv.Itoa(x.V / 2), true
		}
		a, sg := x.V, ""
		if a < 0 {
			a, sg = -a, "-"
		}
		return fmt.Sprintf("%s%d.5", sg, a/2), true
	case "big":
		return sign(x.V) + "1e15", true
	case "bigh":
		return sign(x.V) + "1000000000000000.5", true
	case "huge":
		return sign(x.V) + "1e30", true
	case "inf":
		if x.V > 0 {
			return "-log(0)", true
		}
		return "log(0)", true
	case "rstart":
		return "RSTART", true
	case "rlength":
		return "RLENGTH", true
	}
	return "", false
}

func sign(v int) string {
	if v < 0 {
		return "-"
	}
	return ""
}

// reSrc renders a regex argument: as a dynamic regex (a string, compiled at
// run time by interp.compileRegex) or as a regex literal (compiled by the
// bytecode compiler).  The specification's rendering escapes '/' and contains
// no newline, so the text can stand between slashes as it is.
func reSrc(text []byte, literal bool) string {
	if literal && len(text) > 0 && bytes.IndexAny(text, "\n") < 0 {
		return "/" + string(text) + "/"
	}
	return hx.AwkString(text)
}

// stmt renders one call as AWK statements that leave the returned value in r.
func stmt(a *Act, expRet []byte, literal bool) (string, bool) {
	switch a.Op {
	case "set":
		return "t = " + hx.AwkString(a.S.Bytes()) + `; r = ""`, true
	case "match":
		return "r = match(t, " + reSrc(a.Re.Bytes(), literal) + `) ""`, true
	case "substr":
		m, ok := numSrc(a.M)
		if !ok {
			return "", false
		}
		if a.N == nil || a.N.K == "none" {
			return "r = substr(t, " + m + ")", true
		}
		n, ok := numSrc(a.N)
		if !ok {
			return "", false
		}
		return "r = substr(t, " + m + ", " + n + ")", true
	case "index":
		return "r = index(t, " + hx.AwkString(a.Pat.Bytes()) + `) ""`, true
	case "split":
		// the array is not empty beforehand: split replaces whatever it held (length(A) is dumped after the call)
		// ... and in half of the cases the separator is passed through a variable (same meaning as the constant)
		if !literal {
			return `A["k"] = "stale"; A[7] = "old"; sv = ` + reSrc(a.Sep.Bytes(), false) + `; n = split(t, A, sv); r = n ""`, true
		}
		return `A["k"] = "stale"; A[7] = "old"; n = split(t, A, ` + reSrc(a.Sep.Bytes(), a.SepK == "re") + `); r = n ""`, true
	case "sub", "gsub":
		return "r = " + a.Op + "(" + reSrc(a.Re.Bytes(), literal) + ", " + hx.AwkString(a.Repl.Bytes()) + `, t) ""`, true
	case "length":
		return lengthStmt, true
	case "int":
		x, ok := numSrc(a.X)
		if !ok {
			return "", false
		}
		// the predicted value is handed over as source text and compared with ==
		// (no dependence on number formatting); anything else is shown with 17 digits
		e := string(expRet)
		return fmt.Sprintf(`v = int(%s); r = (v == (%s)) ? %s : sprintf("%%.17g!", v)`, x, e, hx.AwkString(expRet)), true
	}
	return "", false
}

// length(t), cross-checked with the bare length of $0 (a different opcode)
const lengthStmt = `r = length(t) ""; $0 = t; if ((length() "") != r) r = r "!=" length()`

func clean(b []byte) bool { return bytes.IndexAny(b, "|\n") < 0 }

func expectLine(o *Obs, matched bool, n int) (string, bool) {
	var sb strings.Builder
	ok := clean(o.Ret.Bytes()) && clean(o.T.Bytes())
	sb.Write(o.Ret.Bytes())
	if matched {
		fmt.Fprintf(&sb, "|%d|%d|", o.RStart, o.RLength)
	} else {
		sb.WriteString("|-|-|")
	}
	sb.Write(o.T.Bytes())
	fmt.Fprintf(&sb, "|%d/%d", n, len(o.Arr))
	for _, p := range o.Arr {
		ok = ok && clean(p.Bytes())
		sb.WriteByte('|')
		sb.Write(p.Bytes())
	}
	sb.WriteByte('\n')
	return sb.String(), ok
}

// numClass names the class of a numeric argument for signatures.
func numClass(x *Num, below1 bool) string {
	if x == nil {
		return "none"
	}
	switch x.K {
	case "fin":
		if x.V%2 != 0 {
			return "fractional"
		}
		if below1 && x.V < 2 {
			return "below-1"
		}
		if x.V < 0 {
			return "negative"
		}
		return "integer"
	case "rstart", "rlength":
		return "var"
	case "none":
		return "none"
	}
	if x.V < 0 {
		return "neg-" + x.K // a negative big, bigh, huge, inf
	}
	return x.K // big, bigh, huge, inf
}

var classRank = map[string]int{"huge": 9, "inf": 8, "big": 7, "bigh": 7, "neg-huge": 6, "neg-inf": 6, "neg-big": 6, "neg-bigh": 6, "var": 5, "fractional": 4, "below-1": 3, "negative": 3, "integer": 1, "none": 0}

func argClass(st *Step) string {
	a := &st.Act
	switch a.Op {
	case "substr":
		cm, cn := numClass(a.M, true), numClass(a.N, false)
		if classRank[cm] >= classRank[cn] {
			if cm == "below-1" && cn != "none" {
				return "start-below-1-with-length"
			}
			return "start-" + cm
		}
		return "length-" + cn
	case "int":
		return numClass(a.X, false)
	case "sub", "gsub":
		c := "plain"
		r := a.Repl.Bytes()
		if bytes.Contains(r, []byte(`\&`)) {
			c = "escaped-amp"
		} else if bytes.IndexByte(r, '&') >= 0 {
			c = "amp"
		}
		for _, m := range st.Ms {
			if m[0] == m[1] {
				return c + "+empty-match"
			}
		}
		return c
	case "match":
		for _, m := range st.Ms {
			if m[0] == m[1] {
				return "empty-match"
			}
		}
		if len(st.Ms) == 0 {
			return "no-match"
		}
		return "match"
	case "split":
		if a.SepK == "char" {
			return "single-char"
		}
		return a.SepK
	case "index":
		if len(a.Pat) > 1 {
			return "multi-byte-needle"
		}
		return "one-byte-needle"
	}
	return "plain"
}

// ---- sanity gate: the specification's matches against Go's regexp ----

var (
	reMu    sync.Mutex
	reCache = map[string]*regexp.Regexp{}
	gateMu  sync.Mutex
)

func goRegexp(src string) *regexp.Regexp {
	reMu.Lock()
	defer reMu.Unlock()
	if re, ok := reCache[src]; ok {
		return re
	}
	re, err := regexp.Compile("(?s:" + src + ")")
	if err == nil {
		re.Longest()
	}
	reCache[src] = re
	return re
}

// gate reports whether the matches the specification computed for this step
// (byte offsets, 1-based, end exclusive) are the ones Go's regexp finds.
func gate(st *Step, target []byte) bool {
	a := &st.Act
	if st.Ms == nil {
		return true // a history rebuilt from a recorded trace carries no matches
	}
	var src []byte
	all := false
	switch {
	case a.Op == "match" || a.Op == "sub":
		src = a.Re.Bytes()
	case a.Op == "gsub":
		src, all = a.Re.Bytes(), true
	case a.Op == "split" && a.SepK == "re":
		src, all = a.Sep.Bytes(), true
	default:
		return true
	}
	re := goRegexp(string(src))
	if re == nil {
		return false
	}
	var got [][]int
	if all {
		got = re.FindAllIndex(target, -1)
	} else if loc := re.FindIndex(target); loc != nil {
		got = [][]int{loc}
	}
	if len(got) != len(st.Ms) {
		return false
	}
	for i, g := range got {
		if g[0]+1 != st.Ms[i][0] || g[1]+1 != st.Ms[i][1] {
			return false
		}
	}
	return true
}

func noteGate(raw []byte) {
	p := os.Getenv("C10_GATE_FILE")
	if p == "" {
		return
	}
	gateMu.Lock()
	defer gateMu.Unlock()
	if f, err := os.OpenFile(p, os.O_APPEND|os.O_CREATE|os.O_WRONLY, 0o644); err == nil {
		f.Write(raw)
		f.Write([]byte("\n"))
		f.Close()
	}
}

// fields of one observed dump line
type obsLine struct {
	ret, rstart, rlength, t, count string
	arr                            []string
	ok                             bool
}

func parseLine(line string) obsLine {
	f := strings.Split(line, "|")
	if len(f) < 5 {
		return obsLine{}
	}
	return obsLine{ret: f[0], rstart: f[1], rlength: f[2], t: f[3], count: f[4], arr: f[5:], ok: true}
}

func whatDiffers(exp, got obsLine) string {
	switch {
	case !got.ok:
		return "output"
	case exp.ret != got.ret:
		return "ret"
	case exp.rstart != got.rstart:
		return "rstart"
	case exp.rlength != got.rlength:
		return "rlength"
	case exp.t != got.t:
		return "target"
	}
	return "array"
}

// Replay is the hx.Replayer for Gen_Builtins exports.
func Replay(raw json.RawMessage) hx.Outcome {
	var h History
	if err := json.Unmarshal(raw, &h); err != nil || len(h.Steps) == 0 || (h.Mode != "bytes" && h.Mode != "chars") {
		return hx.Outcome{Skipped: true, Note: "bad case"}
	}
	// how many steps are judged: up to the first one the property leaves open
	// or the specification's regex matches fail the sanity gate
	nj := 0
	target := h.S.Bytes()
	for i := range h.Steps {
		st := &h.Steps[i]
		if st.Open {
			break
		}
		if !gate(st, target) {
			noteGate(raw)
			return hx.Outcome{Skipped: true, Note: "spec-gate"}
		}
		target = st.Obs.T.Bytes()
		nj++
	}
	if nj == 0 {
		return hx.Outcome{Skipped: true, Note: "open"}
	}
	// half of the cases (by content hash) write their regexes as regex literals,
	// the other half as strings
	literal := hx.ShortHash(raw)[0]&1 == 1
	var sb strings.Builder
	sb.WriteString("BEGIN {\n  delete A\n  t = " + hx.AwkString(h.S.Bytes()) + "\n")
	// every 4th case (by content hash) first uses 120 other dynamic regular expressions: what the calls return does
	// not depend on how many regular expressions the program has used before (the interpreter caches compiled ones)
	if hx.ShortHash(raw)[1]&3 == 0 {
		sb.WriteString("  for (i = 0; i < 120; i++) junk += (\"zz\" ~ (\"y\" i))\n")
	}
	expLines := make([]string, 0, nj)
	matched, n := false, 0
	for i := 0; i < nj; i++ {
		st := &h.Steps[i]
		s, ok := stmt(&st.Act, st.Obs.Ret.Bytes(), literal)
		if !ok {
			return hx.Outcome{Skipped: true, Note: "unknown call"}
		}
		if st.Act.Op == "match" {
			matched = true
		}
		if st.Act.Op == "split" {
			n = len(st.Obs.Arr)
		}
		line, clean := expectLine(&st.Obs, matched, n)
		if !clean {
			return hx.Outcome{Skipped: true, Note: "delimiter in predicted value"}
		}
		expLines = append(expLines, line)
		m := 0
		if matched {
			m = 1
		}
		fmt.Fprintf(&sb, "  %s\n  dump(r, %d)\n", s, m)
	}
	sb.WriteString("}\n" + probeFuncs)
	prog := sb.String()
	res := hx.RunAwk(prog, nil, &interp.Config{Chars: h.Mode == "chars"}, nil)
	last := &h.Steps[nj-1]
	if res.Panic != nil {
		return hx.Fail(fmt.Sprintf("C10/%s/panic/%s", last.Act.Op, argClass(last)), fmt.Sprintf("[%s] panic: %v", h.Mode, res.Panic), nil, res.PanicStk, prog)
	}
	if res.ParseErr != nil {
		return hx.Outcome{Skipped: true, Note: "generated program rejected: " + res.ParseErr.Error()}
	}
	want := strings.Join(expLines, "")
	got := string(res.Stdout)
	if got == want && res.Err == nil {
		return hx.OK(nontrivial(&h, nj))
	}
	gotLines := strings.SplitAfter(got, "\n")
	for i := 0; i < nj; i++ {
		st := &h.Steps[i]
		var gl string
		if i < len(gotLines) {
			gl = gotLines[i]
		}
		if gl == expLines[i] {
			continue
		}
		cls := argClass(st)
		if gl == "" || !strings.HasSuffix(gl, "\n") {
			return hx.Fail(fmt.Sprintf("C10/%s/error/%s", st.Act.Op, cls),
				fmt.Sprintf("[%s] call %d (%s) ended the program: %v", h.Mode, i+1, st.Act.Op, res.Err), want, got, prog)
		}
		e, g := parseLine(strings.TrimSuffix(expLines[i], "\n")), parseLine(strings.TrimSuffix(gl, "\n"))
		if st.Act.Op == "split" && st.Act.SepK == "char" {
			// the statement: the pieces joined by the separator give the string back
			before := h.S.Bytes()
			if i > 0 {
				before = h.Steps[i-1].Obs.T.Bytes()
			}
			if g.ok && strings.Join(g.arr, st.Act.Sep.String()) != string(before) {
				return hx.Fail(fmt.Sprintf("C10/split/join/%s", cls),
					fmt.Sprintf("[%s] the pieces of split joined by the separator do not give the string back", h.Mode), expLines[i], gl, prog)
			}
			if g.ok && len(before) == 0 && e.ret != g.ret && e.t == g.t && e.rstart == g.rstart && e.rlength == g.rlength {
				// the number of pieces of the empty string is not pinned down
				return hx.OK(false)
			}
		}
		return hx.Fail(fmt.Sprintf("C10/%s/%s/%s", st.Act.Op, whatDiffers(e, g), cls),
			fmt.Sprintf("[%s] after call %d (%s) the program observes something else than the specification predicts", h.Mode, i+1, st.Act.Op),
			expLines[i], gl, prog)
	}
	lastCls := argClass(last)
	if res.Err != nil {
		return hx.Fail(fmt.Sprintf("C10/%s/error/%s", last.Act.Op, lastCls), fmt.Sprintf("[%s] run failed: %v", h.Mode, res.Err), want, got, prog)
	}
	return hx.Fail(fmt.Sprintf("C10/%s/output/%s", last.Act.Op, lastCls), fmt.Sprintf("[%s] extra output", h.Mode), want, got, prog)
}

// a history is non-trivial when a judged call does real work: a match is
// found or replaced, a position/length is clamped or truncated, a multi-byte
// character or invalid byte is involved, or a split produces several pieces
func nontrivial(h *History, nj int) bool {
	multi := false
	for _, c := range h.S {
		if c >= 128 {
			multi = true
		}
	}
	for i := 0; i < nj; i++ {
		st := &h.Steps[i]
		switch st.Act.Op {
		case "match", "sub", "gsub":
			if len(st.Ms) > 0 {
				return true
			}
		case "substr":
			if multi || numClass(st.Act.M, true) != "integer" || numClass(st.Act.N, false) != "integer" {
				return true
			}
		case "split":
			if len(st.Obs.Arr) > 1 {
				return true
			}
		case "index":
			if len(st.Obs.Ret) > 0 && st.Obs.Ret[0] != '0' {
				return true
			}
		case "length":
			if multi {
				return true
			}
		case "int":
			if numClass(st.Act.X, false) != "integer" {
				return true
			}
		}
	}
	return false
}
