package c14

import (
	"bufio"
	"bytes"
	"encoding/json"
	"fmt"
	"math/rand"
	"os"

	"github.com/benhoyt/goawk/verifharness/hx"
)

var allKinds = []string{"plain", "setglob", "setfs", "csvhdr", "setmodes", "openout", "exit3", "errfunc", "errforin",
	"cancel", "rand", "srand5", "midfile", "match", "p_io", "p_func"}
var allCfgs = []string{"c0", "c1", "c2"}

// chunksOf parses everything a run printed into (key, value) pieces; the one
// unkeyed piece is the line fp() prints with `print` right after the rand
// chunk (its text holds no newline except at its end, whatever OFS/ORS are).
func chunksOf(out []byte) ([]map[string]any, []byte, error) {
	var res []map[string]any
	var randV []byte
	off := 0
	for off < len(out) {
		c, no, ok := parseKeyed(out, off)
		if !ok {
			return nil, nil, fmt.Errorf("cannot parse run output at %d: %q", off, out[off:])
		}
		res = append(res, map[string]any{"k": c.K, "v": hx.FromBytes(c.V)})
		off = no
		if c.K == "rand" {
			randV = c.V
			nl := bytes.IndexByte(out[off:], '\n')
			if nl < 0 {
				return nil, nil, fmt.Errorf("no print line after the rand chunk")
			}
			res = append(res, map[string]any{"k": "", "v": hx.FromBytes(out[off : off+nl+1])})
			off += nl + 1
		}
	}
	return res, randV, nil
}

// Record drives n random histories (5-12 operations each: runs of random
// kinds and configurations, ResetVars, ResetRand) on one real Interpreter
// each and writes what every run printed for Trace_Reuse.tla.
func Record(seed int64, n int, out string) (int, error) {
	r := rand.New(rand.NewSource(seed))
	f, err := os.Create(out)
	if err != nil {
		return 0, err
	}
	defer f.Close()
	bw := bufio.NewWriter(f)
	defer bw.Flush()
	emit := func(v any) {
		b, _ := json.Marshal(v)
		bw.Write(b)
		bw.WriteByte('\n')
	}
	w := dirPool.Get().(*workDir)
	defer dirPool.Put(w)
	fresh := firstRandOfFresh()
	for t := 0; t < n; t++ {
		s, err := newSession()
		if err != nil {
			return t, err
		}
		os.Remove(w.wf)
		emit(map[string]any{"ev": "reset"})
		nops := 5 + r.Intn(8)
		for i := 0; i < nops; i++ {
			switch k := r.Intn(10); {
			case k == 0:
				s.in.ResetVars()
				emit(map[string]any{"ev": "step", "op": "resetvars"})
			case k == 1:
				s.in.ResetRand()
				emit(map[string]any{"ev": "step", "op": "resetrand"})
			default:
				kind, cfg := allKinds[r.Intn(len(allKinds))], allCfgs[r.Intn(len(allCfgs))]
				res := s.run(kind, cfg, w)
				if res.Panic != nil {
					return t, fmt.Errorf("run %s/%s panicked: %v", kind, cfg, res.Panic)
				}
				chunks, rv, err := chunksOf(res.Out)
				if err != nil {
					return t, err
				}
				emit(map[string]any{"ev": "step", "op": "run", "kind": kind, "cfg": cfg, "status": res.Status, "err": res.Err,
					"out": chunks, "randfresh": bytes.Equal(rv, fresh)})
			}
		}
	}
	return n, nil
}
