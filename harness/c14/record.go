package c14

import (
	"bufio"
	"bytes"
	"encoding/json"
	"math/rand"
	"os"

	"github.com/benhoyt/goawk/verifharness/hx"
)

var allKinds = []string{"plain", "setglob", "setfs", "csvhdr", "setmodes", "openout", "exit3", "errfunc", "errforin",
	"cancel", "rand", "srand5", "midfile", "match", "p_io", "p_func",
	"gl_plain", "gl_dash", "gl_dashvar", "exit_enderr", "exitbegin", "exit_endcancel", "sys", "pipe",
	"nr_plain", "sr_first", "sr_only", "sr_time", "av_write", "av_del",
	"rg_close", "rg_eof", "rg_exit", "rg_err", "rg_cancel", "rg_next", "rg_nextfile", "rg_getline",
	"fmtc", "dp_ok", "dp_err", "dp_exit", "dp_cancel"}
var allCfgs = []string{"c0", "c1", "c2", "c3", "c4", "c5", "c6", "c7", "c8", "c9", "c10", "c11"}

// the kinds added after the first 16 (stdin / exit-status / context / range / rand / ARGV+ENVIRON families) are
// drawn more often than their share
var newKinds = allKinds[16:]

// chunksOf parses everything a run printed into (key, value) pieces; the one
// unkeyed piece is the line fp() prints with `print` right after the empty
// chunk "pl" (its text holds no newline except at its end, whatever OFS/ORS
// are).  The value of a rand() ("rand", "rnd") is replaced by the name of the
// draw of a new interpreter it equals ("seed:idx", or "?").
//
// Output that does not have this form is not an error of the recorder: it is
// what the code did, and the specification must reject it.  The unparsable
// rest becomes one chunk with the key "?" (no predicted chunk has that key).
func chunksOf(out []byte) []map[string]any {
	res := []map[string]any{} // never nil: an empty output is the JSON array [], not null
	off := 0
	for off < len(out) {
		c, no, ok := parseKeyed(out, off)
		if !ok {
			res = append(res, map[string]any{"k": "?", "v": hx.FromBytes(out[off:])})
			break
		}
		if c.K == "rand" || c.K == "rnd" {
			c.V = []byte(drawSymbol(string(c.V)))
		}
		res = append(res, map[string]any{"k": c.K, "v": hx.FromBytes(c.V)})
		off = no
		if c.K == "pl" || c.K == "pf" || c.K == "fc" {
			nl := bytes.IndexByte(out[off:], '\n')
			if nl < 0 {
				if off < len(out) {
					res = append(res, map[string]any{"k": "?", "v": hx.FromBytes(out[off:])})
				}
				break
			}
			res = append(res, map[string]any{"k": "", "v": hx.FromBytes(out[off : off+nl+1])})
			off += nl + 1
		}
	}
	return res
}

// Record drives n random histories (5-12 operations each: runs of random
// kinds and configurations -- all 43 kinds x 12 configurations, so Execute,
// ExecuteContext(Background) and contexts that are cancelled / expire after
// the call mix freely with runs that read standard input through every path,
// end by exit N + a failing END, or start commands --, ResetVars, ResetRand)
// on one real Interpreter each and writes what every run printed for
// Trace_Reuse.tla.  Every run gets its own standard input (tag).
func Record(seed int64, n int, out string) (int, error) {
	r := rand.New(rand.NewSource(seed))
	f, err := os.Create(out)
	if err != nil {
		return 0, err
	}
	defer f.Close()
	bw := bufio.NewWriter(f)
	defer bw.Flush()
	emit := func(v any) {
		b, _ := json.Marshal(v)
		bw.Write(b)
		bw.WriteByte('\n')
	}
	w := dirPool.Get().(*workDir)
	defer dirPool.Put(w)
	for t := 0; t < n; t++ {
		s, err := newSession()
		if err != nil {
			return t, err
		}
		os.Remove(w.wf)
		emit(map[string]any{"ev": "reset"})
		nops := 5 + r.Intn(8)
		nruns := 0
		for i := 0; i < nops; i++ {
			switch k := r.Intn(10); {
			case k == 0:
				s.in.ResetVars()
				emit(map[string]any{"ev": "step", "op": "resetvars"})
			case k == 1:
				s.in.ResetRand()
				emit(map[string]any{"ev": "step", "op": "resetrand"})
			default:
				kind, cfg := allKinds[r.Intn(len(allKinds))], allCfgs[r.Intn(len(allCfgs))]
				if r.Intn(3) == 0 {
					kind = newKinds[r.Intn(len(newKinds))]
				}
				// (exit at the very limit of nested calls is followed by an END block that calls a function: on a
				// tree where that goes wrong it would go wrong on a NEW interpreter, which is not a verdict about reuse)
				if kind == "dp_exit" && cfg == "c10" && nruns == 0 {
					cfg = "c9"
				}
				nruns++
				tag := 1 + i%9
				res := s.run(kind, cfg, tag, w)
				if res.Panic != nil {
					// a panic is behaviour of the code too: recorded as an error class no run is predicted to have
					res.Err = "panic"
				}
				emit(map[string]any{"ev": "step", "op": "run", "kind": kind, "cfg": cfg, "tag": tag, "status": res.Status, "err": res.Err,
					"out": chunksOf(res.Out)})
			}
		}
	}
	return n, nil
}
