package c14

// Program is the one AWK program all C14 runs execute; the run kind is the
// value of `mode` (Config.Vars).  spec/Reuse.tla (operator Run) is the
// transcription of this text: every mode prints the fingerprint fp() first,
// then does what its kind says.  Keep the two in step.
//
// Globals that are only scratch (ln, s, t, q, i, j, k, z, r) are initialised
// before use, so that they are not part of the state a later run observes.
//
// Standard input is read through one path per run, or through a second one
// only after the first reached the end (gl_plain and gl_dash read everything
// in BEGIN; gl_dashvar reads in END, after the main loop): how two half-read
// scanners share buffered input is not part of what is compared.  Commands
// (sys, pipe) are started in END, when the main loop has consumed the standard
// input a child would otherwise inherit and compete for.
const Program = `
function emit(k, v) { printf "%s=%d:%s\n", k, length(v), v }

function fp(   cv, m, k) {
  emit("g", g)
  emit("ak", ("k" in arr) ? arr["k"] : "-")
  emit("FS", FS); emit("RS", RS); emit("OFS", OFS); emit("ORS", ORS)
  emit("CONVFMT", CONVFMT); emit("OFMT", OFMT); emit("SUBSEP", SUBSEP)
  cv = 0.1234567 ""; emit("cv", cv)
  m[1,2] = 1; for (k in m) emit("ss", k)
  emit("NR", NR); emit("FNR", FNR); emit("NF", NF); emit("line", $0)
  emit("FILENAME", FILENAME); emit("RSTART", RSTART); emit("RLENGTH", RLENGTH)
  emit("INPUTMODE", INPUTMODE); emit("OUTPUTMODE", OUTPUTMODE)
  emit("rand", sprintf("%.9f", rand()))
  print 0.1234567, "q"
}

function boom(n,   lv, la) {
  lv = n; la[n] = n
  if (n == 3) return 1 / (n - 3)
  return lv
}
function spin(n,   lv, la) {
  lv = n; la[n] = 1
  if (n == 7) vcancel()
  return lv
}
function fact(n,   la) { la[n] = n; if (n <= 1) return 1; return n * fact(n - 1) }

BEGIN {
  fp()
  if (mode == "setfs") { FS = ","; RS = ";"; OFS = "-"; ORS = "!\n"; CONVFMT = "%.2g"; OFMT = "%.3g"; SUBSEP = ":" }
  else if (mode == "csvhdr") INPUTMODE = "csv header"
  else if (mode == "setmodes") { INPUTMODE = "tsv"; OUTPUTMODE = "csv" }
  else if (mode == "rand") { rand(); rand() }
  else if (mode == "srand5") { srand(5); rand() }
  else if (mode == "midfile") { ln = ""; r = (getline ln < rf); emit("midret", r); emit("mid", ln) }
  else if (mode == "match") match("xxabc", /abc/)
  else if (mode == "p_io") {
    printf "P\n" > wf
    emit("wclose", close(wf))
    ln = ""
    while ((getline ln < wf) > 0) emit("wline", ln)
    close(wf)
    ln = ""
    r = (getline ln < rf); emit("rret", r); emit("rline", ln)
  }
  else if (mode == "gl_plain") { while ((getline) > 0) emit("gl", $0) }
  else if (mode == "gl_dash") { while ((getline < "-") > 0) emit("gd", $0) }
  else if (mode == "exitbegin") exit 6
  else if (mode == "p_func") {
    emit("fact", fact(5))
    delete t; t["a"] = 1; t["b"] = 2; q = 0
    for (k in t) q += t[k]
    emit("forin", q)
    emit("boom", boom(1))
    q = 0
    for (i = 0; i < 600; i++) q++
    emit("loop", q)
    if (match("zzab", /ab/)) emit("rstart", RSTART)
    s = 0
  }
}

{ emit("rec", NR "/" NF "/" $1) }

mode == "setglob"  { g = "g" NR; arr["k"] = "a" NR }
mode == "csvhdr"   { emit("x", @"x") }
mode == "p_io"     { emit("x", @"x") }
mode == "openout"  { print $0 > wf }
mode == "exit3"    { exit 3 }
mode == "exit_enderr"    { exit 4 }
mode == "exit_endcancel" { exit 5 }
mode == "errfunc"  { s = 0; for (i = 0; i < 5; i++) s += boom(i) }
mode == "errforin" { delete t; t["a"]; t["bb"]; for (k in t) z = 1 / (NF - NF) }
mode == "cancel"   { j = 0; while (1) spin(j++) }
mode == "p_func"   { s += $1 }

END {
  emit("endNR", NR)
  if (mode == "p_func") { emit("sum", s); exit }
  if (mode == "gl_dashvar") { ln = ""; r = (getline ln < "-"); emit("gvr", r); emit("gv", ln) }
  if (mode == "sys") { r = system("exit 3"); emit("sysrc", r) }
  if (mode == "pipe") { ln = ""; r = ("echo hi" | getline ln); emit("pipe", r ":" ln); close("echo hi") }
  if (mode == "exit_enderr" || mode == "exitbegin") z = 1 / (NR - NR)
  if (mode == "exit_endcancel") { j = 0; while (1) spin(j++) }
}
`
