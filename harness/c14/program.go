package c14

// Program is the one AWK program all C14 runs execute; the run kind is the
// value of `mode` (Config.Vars).  spec/Reuse.tla (operator Run) is the
// transcription of this text: every mode prints the fingerprint fp() first,
// then does what its kind says.  Keep the two in step.
//
// Globals that are only scratch (ln, s, t, q, i, j, k, z, r) are initialised
// before use, so that they are not part of the state a later run observes.
//
// Standard input is read through one path per run, or through a second one
// only after the first reached the end (gl_plain and gl_dash read everything
// in BEGIN; gl_dashvar reads in END, after the main loop): how two half-read
// scanners share buffered input is not part of what is compared.  Commands
// (sys, pipe) are started in END, when the main loop has consumed the standard
// input a child would otherwise inherit and compete for.
//
// fp() enumerates the arrays the interpreter fills (ARGV, ENVIRON, FIELDS)
// completely, in the byte order of their keys (enum sorts the keys of a for-in
// itself), and reads ARGV beyond ARGC without creating elements.  Directory
// parts of ARGV values are stripped (the file operand of configuration c1 is
// a path of the harness's work directory).  The kinds nr_* and sr_* do not call
// rand() in fp(): a program whose first rand() comes after srand(n), or that
// never calls rand().  The line printed with `print` follows the empty chunk
// "pl".  A second unkeyed line follows the empty chunk "pf": what printf and
// sprintf make of %c (numbers above 127, strings that start with a multi-byte
// character), %s of a number (CONVFMT) and %d with format strings that are the
// same text in every run; the kind fmtc does the same with a format string
// built at run time (after the empty chunk "fc").  These lines end with "\n"
// whatever ORS is and are never passed to length() (which counts characters
// under Config.Chars).
//
// The kinds dp_* call deep(depth, mode): `depth` (Config.Vars of the run)
// nested calls of a user-defined function with a local scalar and a local
// array each, at the bottom of which the function returns (dp_ok), fails
// (dp_err), executes exit 3 (dp_exit) or cancels the call's context and loops
// (dp_cancel).
//
// The one range pattern of the program is started only by the kinds rg_*; it
// is closed by the record that names the run (t<tag>), except for rg_eof.
const Program = `
function emit(k, v) { printf "%s=%d:%s\n", k, length(v), v }
function rnd() { return sprintf("%.12f", rand()) }

function enum(a,   ks, n, i, j, t, k, s) {
  n = 0
  for (k in a) ks[++n] = k
  for (i = 2; i <= n; i++) {
    t = ks[i]
    for (j = i - 1; j >= 1 && ks[j] > t; j--) ks[j + 1] = ks[j]
    ks[j + 1] = t
  }
  s = ""
  for (i = 1; i <= n; i++) { t = a[ks[i]]; sub(/^\/.*\//, "", t); s = s ks[i] "=" t ";" }
  return s
}
function argvto(lo, hi,   i, t, s) {
  s = ""
  for (i = lo; i < hi; i++) {
    if (i in ARGV) { t = ARGV[i]; sub(/^\/.*\//, "", t); s = s t "," }
    else s = s "-,"
  }
  return s
}

function fp(   cv, m, k) {
  emit("g", g)
  emit("ak", ("k" in arr) ? arr["k"] : "-")
  emit("FS", FS); emit("RS", RS); emit("OFS", OFS); emit("ORS", ORS)
  emit("CONVFMT", CONVFMT); emit("OFMT", OFMT); emit("SUBSEP", SUBSEP)
  cv = 0.1234567 ""; emit("cv", cv)
  m[1,2] = 1; for (k in m) emit("ss", k)
  emit("NR", NR); emit("FNR", FNR); emit("NF", NF); emit("line", $0)
  emit("FILENAME", FILENAME); emit("RSTART", RSTART); emit("RLENGTH", RLENGTH)
  emit("RT", RT)
  emit("INPUTMODE", INPUTMODE); emit("OUTPUTMODE", OUTPUTMODE)
  emit("chars", length("\303\251"))
  emit("ARGC", ARGC)
  emit("argvc", argvto(0, ARGC))
  emit("argv", enum(ARGV))
  emit("argvx", argvto(ARGC, ARGC + 2))
  emit("env", enum(ENVIRON))
  emit("FIELDS", enum(FIELDS))
  if (mode !~ /^(nr|sr)_/) emit("rand", rnd())
  emit("pl", "")
  print 0.1234567, "q"
  emit("pf", "")
  printf "%c%c|%c%c|", 233, 65, "\303\251x", "\342\202\254"
  cv = sprintf("%c%c", 233, "\303\251x")
  printf "%s|%s|%d\n", cv, 0.1234567, 3.9
}

function boom(n,   lv, la) {
  lv = n; la[n] = n
  if (n == 3) return 1 / (n - 3)
  return lv
}
function spin(n,   lv, la) {
  lv = n; la[n] = 1
  if (n == 7) vcancel()
  return lv
}
function deep(n, how,   lv, la) {
  lv = n; la[n] = n
  if (n > 1) return deep(n - 1, how) + 1
  if (how == "dp_err") return 1 / (n - 1)
  if (how == "dp_exit") exit 3
  if (how == "dp_cancel") { vcancel(); while (1) lv++ }
  return 1
}
function fact(n,   la) { la[n] = n; if (n <= 1) return 1; return n * fact(n - 1) }

BEGIN {
  fp()
  if (mode == "setfs") { FS = ","; RS = ";"; OFS = "-"; ORS = "!\n"; CONVFMT = "%.2g"; OFMT = "%.3g"; SUBSEP = ":" }
  else if (mode == "csvhdr") INPUTMODE = "csv header"
  else if (mode == "setmodes") { INPUTMODE = "tsv"; OUTPUTMODE = "csv" }
  else if (mode == "rand") { emit("rnd", rnd()); emit("rnd", rnd()) }
  else if (mode == "srand5") { emit("sr", srand(5)); emit("rnd", rnd()) }
  else if (mode == "sr_first") { emit("sr", srand(7)); emit("rnd", rnd()); emit("rnd", rnd()) }
  else if (mode == "sr_only") { emit("sr", srand(9)) }
  else if (mode == "sr_time") { emit("sr", srand()); emit("rnd", rnd()) }
  else if (mode == "av_write") { ARGV[5] = "zz"; ENVIRON["token"] = "tk"; emit("argvw", enum(ARGV)); emit("envw", enum(ENVIRON)) }
  else if (mode == "av_del") { delete ARGV[2]; delete ENVIRON["home"]; emit("argvw", enum(ARGV)); emit("envw", enum(ENVIRON)) }
  else if (mode == "fmtc") { f = "%c" "/%c"; ln = sprintf(f, 200, "\342\202\254"); emit("fc", ""); printf f "|%s\n", 233, "\303\251x", ln }
  else if (mode == "midfile") { ln = ""; r = (getline ln < rf); emit("midret", r); emit("mid", ln) }
  else if (mode == "match") match("xxabc", /abc/)
  else if (mode == "p_io") {
    printf "P\n" > wf
    emit("wclose", close(wf))
    ln = ""
    while ((getline ln < wf) > 0) emit("wline", ln)
    close(wf)
    ln = ""
    r = (getline ln < rf); emit("rret", r); emit("rline", ln)
  }
  else if (mode == "gl_plain") { while ((getline) > 0) emit("gl", $0) }
  else if (mode == "gl_dash") { while ((getline < "-") > 0) emit("gd", $0) }
  else if (mode == "exitbegin") exit 6
  else if (mode == "p_func") {
    emit("fact", fact(5))
    delete t; t["a"] = 1; t["b"] = 2; q = 0
    for (k in t) q += t[k]
    emit("forin", q)
    emit("boom", boom(1))
    q = 0
    for (i = 0; i < 600; i++) q++
    emit("loop", q)
    if (match("zzab", /ab/)) emit("rstart", RSTART)
    s = 0
  }
}

{ emit("rec", NR "/" NF "/" $1) }

(mode ~ /^rg_/ && $1 ~ /^[0-9]/), ($1 ~ /^t/ && mode != "rg_eof") { emit("rg", $1) }

mode == "setglob"  { g = "g" NR; arr["k"] = "a" NR }
mode == "csvhdr"   { emit("x", @"x") }
mode == "p_io"     { emit("x", @"x") }
mode == "openout"  { print $0 > wf }
mode == "exit3"    { exit 3 }
mode == "exit_enderr"    { exit 4 }
mode == "exit_endcancel" { exit 5 }
mode == "errfunc"  { s = 0; for (i = 0; i < 5; i++) s += boom(i) }
mode == "errforin" { delete t; t["a"]; t["bb"]; for (k in t) z = 1 / (NF - NF) }
mode == "cancel"   { j = 0; while (1) spin(j++) }
mode == "p_func"   { s += $1 }
mode ~ /^dp_/      { emit("deep", deep(depth + 0, mode)) }
mode == "rg_exit"     && $1 ~ /^[0-9]/ { exit 3 }
mode == "rg_err"      && $1 ~ /^[0-9]/ { z = 1 / (NF - NF) }
mode == "rg_cancel"   && $1 ~ /^[0-9]/ { j = 0; while (1) spin(j++) }
mode == "rg_next"     && $1 ~ /^[0-9]/ { emit("nx", $1); next }
mode == "rg_nextfile" && $1 ~ /^[0-9]/ { nextfile }
mode == "rg_getline"  && $1 ~ /^[0-9]/ { r = getline; emit("rgl", r ":" $1) }

END {
  emit("endNR", NR)
  if (mode == "p_func") { emit("sum", s); exit }
  if (mode == "gl_dashvar") { ln = ""; r = (getline ln < "-"); emit("gvr", r); emit("gv", ln) }
  if (mode == "sys") { r = system("exit 3"); emit("sysrc", r) }
  if (mode == "pipe") { ln = ""; r = ("echo hi" | getline ln); emit("pipe", r ":" ln); close("echo hi") }
  if (mode == "exit_enderr" || mode == "exitbegin") z = 1 / (NR - NR)
  if (mode == "exit_endcancel") { j = 0; while (1) spin(j++) }
}
`
