// Package c14 binds spec/Reuse.tla to interp.New / Execute / ExecuteContext /
// ResetVars / ResetRand: histories of runs exported by TLC (Gen_Reuse) are
// executed on ONE Interpreter; the output, exit status and error class of the
// runs are compared with the specification's prediction, and a run made after
// ResetVars+ResetRand additionally with the same run on a new interpreter.
// Every run is handed a standard input of its own and is called the way its
// configuration says (Execute, ExecuteContext(Background), ExecuteContext with a
// context that is cancelled / expires the moment the call has returned), with
// its own Args / Argv0 / Environ / Chars / sandbox flags.  The value of every
// rand() is compared with the draw of a NEW interpreter the specification
// names (seed, position in the sequence).
// In the other direction Record drives longer random histories and writes what
// every run printed as events for Trace_Reuse.tla.
package c14

import (
	"bytes"
	"context"
	"encoding/json"
	"errors"
	"fmt"
	"os"
	"path/filepath"
	"strconv"
	"strings"
	"sync"
	"time"

	"github.com/benhoyt/goawk/interp"
	"github.com/benhoyt/goawk/parser"
	"github.com/benhoyt/goawk/verifharness/hx"
)

// ---- exported-case shapes ----

type RunSum struct {
	Vr     string `json:"vr"`
	Kind   string `json:"kind"`
	Cfg    string `json:"cfg"`
	Tag    int    `json:"tag"` // position of the run in the history: makes its standard input its own
	Status int    `json:"status"`
	Err    string `json:"err"`
}

type Chunk struct {
	K   string `json:"k"`
	V   hx.BS  `json:"v"`
	Cmp string `json:"cmp"`
}

type Case struct {
	Fam  string   `json:"fam"`
	Runs []RunSum `json:"runs"`
	Out  []Chunk  `json:"out"`
}

// ---- files of one case ----

const (
	rfContent = "r1\nr2\nr3\n"
	infC1     = "x:y\n5:6\n"
)

// stdinOf is the standard input handed to a run (StdinOf in spec/Reuse.tla): two
// records and one that names the run.
func stdinOf(cfg string, tag int) string {
	switch cfg {
	case "c0":
		return fmt.Sprintf("x y\n5 6\nt%d 9\n", tag)
	case "c1":
		return fmt.Sprintf("p:q\n7:8\nt%d:9\n", tag)
	case "c2":
		return fmt.Sprintf("x,y\n5,6\nt%d,9\n", tag)
	case "c3":
		return fmt.Sprintf("x y\n7 8\nt%d 9\n", tag)
	case "c4":
		return fmt.Sprintf("x y\n3 4\nt%d 9\n", tag)
	case "c5":
		return fmt.Sprintf("x y\n2 1\nt%d 9\n", tag)
	case "c6":
		return fmt.Sprintf("x y\n4 2\nt%d 9\n", tag)
	case "c7":
		return fmt.Sprintf("x y\n6 3\nt%d 9\n", tag)
	case "c8":
		return fmt.Sprintf("x y\n8 1\nt%d 9\n", tag)
	case "c9":
		return fmt.Sprintf("x y\n9 1\nt%d 9\n", tag)
	case "c10":
		return fmt.Sprintf("x y\n1 1\nt%d 9\n", tag)
	case "c11":
		return fmt.Sprintf("x y\n1 2\nt%d 9\n", tag)
	}
	panic("c14: unknown configuration " + cfg)
}

// apiOf: how the run is called (ApiOf in spec/Reuse.tla).  "exec": Execute;
// "ctxbg": ExecuteContext(context.Background()); "ctx": ExecuteContext with a
// context that is cancelled as soon as the call has returned (the idiom
// `ctx, cancel := context.WithTimeout(..); defer cancel()`); "ctxdl":
// ExecuteContext with a context whose deadline passes as soon as the call has
// returned.  Kinds that cancel their own call get a cancellable context.
func apiOf(kind, cfg string) string {
	api := map[string]string{"c0": "exec", "c1": "ctx", "c2": "exec", "c3": "ctxdl", "c4": "ctxbg", "c5": "exec", "c6": "exec", "c7": "exec",
		"c8": "exec", "c9": "exec", "c10": "exec", "c11": "exec"}[cfg]
	if (kind == "cancel" || kind == "exit_endcancel" || kind == "rg_cancel" || kind == "dp_cancel") && (api == "exec" || api == "ctxbg") {
		return "ctx"
	}
	return api
}

// callLimit is the number of nested user-function calls a NEW interpreter allows
// (CallLimit in spec/Reuse.tla).
const callLimit = 1000

// depthOf: how deep the kinds dp_* nest calls in this configuration (Vars depth).
func depthOf(cfg string) int {
	switch cfg {
	case "c8":
		return 400
	case "c9":
		return 700
	case "c10":
		return callLimit
	case "c11":
		return callLimit + 1
	}
	return 3
}

// deadlineCtx is a context with a deadline that passes when the harness says
// so: Done is closed and Err becomes DeadlineExceeded at expire().
type deadlineCtx struct {
	done chan struct{}
	once sync.Once
	mu   sync.Mutex
	err  error
	at   time.Time
}

func newDeadlineCtx() *deadlineCtx {
	return &deadlineCtx{done: make(chan struct{}), at: time.Now().Add(time.Hour)}
}
func (c *deadlineCtx) Deadline() (time.Time, bool) { return c.at, true }
func (c *deadlineCtx) Done() <-chan struct{}       { return c.done }
func (c *deadlineCtx) Value(any) any               { return nil }
func (c *deadlineCtx) Err() error {
	c.mu.Lock()
	defer c.mu.Unlock()
	return c.err
}
func (c *deadlineCtx) expire() {
	c.once.Do(func() {
		c.mu.Lock()
		c.err = context.DeadlineExceeded
		c.mu.Unlock()
		close(c.done)
	})
}

type workDir struct{ dir, wf, rf, inf string }

// dirPool hands out work directories (one per replay in progress; a free list, not a sync.Pool: a pool is emptied
// by every garbage collection and would create thousands of directories).
type dirList struct {
	mu   sync.Mutex
	free []*workDir
}

func (l *dirList) Get() any {
	l.mu.Lock()
	if n := len(l.free); n > 0 {
		w := l.free[n-1]
		l.free = l.free[:n-1]
		l.mu.Unlock()
		return w
	}
	l.mu.Unlock()
	return newWorkDir()
}

func (l *dirList) Put(w *workDir) {
	l.mu.Lock()
	l.free = append(l.free, w)
	l.mu.Unlock()
}

var dirPool = &dirList{}

func newWorkDir() *workDir {
	// under the current directory: the check runs the harness inside its work
	// directory, which is removed when the check ends
	cwd, err := os.Getwd()
	must(err)
	d, err := os.MkdirTemp(cwd, "c14-")
	must(err)
	w := &workDir{dir: d, wf: filepath.Join(d, "wf"), rf: filepath.Join(d, "rf"), inf: filepath.Join(d, "inf")}
	must(os.WriteFile(w.rf, []byte(rfContent), 0o644))
	must(os.WriteFile(w.inf, []byte(infC1), 0o644))
	allDirsMu.Lock()
	allDirs = append(allDirs, d)
	allDirsMu.Unlock()
	return w
}

var (
	allDirs   []string
	allDirsMu sync.Mutex
)

// Cleanup removes the temporary directories (called when a replay/record mode ends).
func Cleanup() {
	allDirsMu.Lock()
	defer allDirsMu.Unlock()
	for _, d := range allDirs {
		os.RemoveAll(d)
	}
	allDirs = nil
}

func must(err error) {
	if err != nil {
		panic(err)
	}
}

// ---- one interpreter and what is needed to run it ----

type session struct {
	in     *interp.Interpreter
	funcs  map[string]any
	cancel func() // makes the context of the run in progress done (kinds "cancel", "exit_endcancel")
}

func newSession() (*session, error) {
	s := &session{}
	s.funcs = map[string]any{"vcancel": func() {
		if s.cancel != nil {
			s.cancel()
		}
	}}
	prog, err := parser.ParseProgram([]byte(Program), &parser.ParserConfig{Funcs: s.funcs})
	if err != nil {
		return nil, err
	}
	s.in, err = interp.New(prog)
	return s, err
}

type Result struct {
	Out    []byte
	Status int
	Err    string // "none", "error", "canceled", "deadline"
	Text   string // error text, for reports only
	Panic  any
}

func errClass(err error) string {
	switch {
	case err == nil:
		return "none"
	case errors.Is(err, context.Canceled):
		return "canceled"
	case errors.Is(err, context.DeadlineExceeded):
		return "deadline"
	}
	return "error"
}

// run executes one run (kind, cfg, tag) on the session's interpreter.
func (s *session) run(kind, cfg string, tag int, w *workDir) (res Result) {
	var out, errb bytes.Buffer
	c := &interp.Config{
		Stdin:   strings.NewReader(stdinOf(cfg, tag)),
		Output:  &out,
		Error:   &errb,
		Environ: []string{},
		Funcs:   s.funcs,
		Vars:    []string{"mode", kind, "wf", w.wf, "rf", w.rf, "depth", strconv.Itoa(depthOf(cfg))},
	}
	switch cfg {
	case "c1":
		c.Vars = append(c.Vars, "FS", ":")
		c.OutputMode = interp.TSVMode
		c.Args = []string{w.inf}
	case "c2":
		c.InputMode = interp.CSVMode
		c.CSVInput = interp.CSVInputConfig{Header: true}
	case "c5":
		// assignment operands: the first sets the program's global g, the others name no variable of the program
		c.Argv0 = "prog"
		c.Args = []string{"g=G5", "o2=B", "o3=C"}
		c.Environ = []string{"home", "hh", "lang", "c"}
	case "c6":
		c.Args = []string{"o9=X"}
		c.Environ = []string{"user", "bob"}
		c.Chars = true
	case "c7":
		c.NoExec, c.NoFileWrites, c.NoFileReads, c.NoArgVars = true, true, true, true
	}
	defer func() {
		if r := recover(); r != nil {
			res.Panic = r
			res.Out = out.Bytes()
		}
	}()
	var status int
	var err error
	s.cancel = nil
	switch apiOf(kind, cfg) {
	case "exec":
		status, err = s.in.Execute(c)
	case "ctxbg":
		status, err = s.in.ExecuteContext(context.Background(), c)
	case "ctx":
		ctx, cancel := context.WithTimeout(context.Background(), time.Hour)
		defer cancel() // the context is done from the moment the call has returned
		s.cancel = cancel
		status, err = s.in.ExecuteContext(ctx, c)
	case "ctxdl":
		ctx := newDeadlineCtx()
		defer ctx.expire()
		s.cancel = ctx.expire
		status, err = s.in.ExecuteContext(ctx, c)
	}
	s.cancel = nil
	res.Out, res.Status, res.Err = out.Bytes(), status, errClass(err)
	if err != nil {
		res.Text = err.Error()
	}
	return res
}

func (s *session) reset(vr string) {
	switch vr {
	case "vars":
		s.in.ResetVars()
	case "rand":
		s.in.ResetRand()
	case "both":
		s.in.ResetVars()
		s.in.ResetRand()
	}
}

// ---- output parsing ----

// PChunk is one parsed piece of a run's output: "key=len:value\n" or a raw line.
type PChunk struct {
	K string
	V []byte
}

// parseOut splits a run's stdout into chunks.  The only raw line is the one
// fp() prints with `print`, directly after the "rand" chunk; it extends to
// the next position where a known key starts a line... since ORS may be
// anything, the raw chunk is delimited by the expected text instead: parseOut
// is therefore driven by the expected chunk list when comparing (see diff).
func parseKeyed(b []byte, off int) (PChunk, int, bool) {
	eq := bytes.IndexByte(b[off:], '=')
	if eq <= 0 || eq > 12 {
		return PChunk{}, off, false
	}
	key := string(b[off : off+eq])
	for _, ch := range key {
		if !(ch >= 'a' && ch <= 'z' || ch >= 'A' && ch <= 'Z') {
			return PChunk{}, off, false
		}
	}
	p := off + eq + 1
	col := bytes.IndexByte(b[p:], ':')
	if col <= 0 {
		return PChunk{}, off, false
	}
	n, err := strconv.Atoi(string(b[p : p+col]))
	if err != nil || p+col+1+n+1 > len(b) || b[p+col+1+n] != '\n' {
		return PChunk{}, off, false
	}
	return PChunk{key, b[p+col+1 : p+col+1+n]}, p + col + 1 + n + 1, true
}

// group names the component of the interpreter's state a chunk key reports on.
func group(key string) string {
	switch key {
	case "g", "ak":
		return "globals"
	case "FS", "RS", "OFS", "ORS", "CONVFMT", "OFMT", "SUBSEP", "cv", "ss":
		return "specials"
	case "NR", "FNR", "NF", "line", "FILENAME", "rec", "endNR":
		return "record"
	case "RSTART", "RLENGTH", "rstart":
		return "match"
	case "RT":
		return "rt"
	case "rg", "nx", "rgl":
		return "range"
	case "ARGC", "argvc", "argv", "argvx", "argvw":
		return "argv"
	case "env", "envw":
		return "environ"
	case "FIELDS":
		return "fields-array"
	case "chars":
		return "chars-flag"
	case "pf", "fc":
		return "format"
	case "deep":
		return "calldepth"
	case "INPUTMODE":
		return "inputmode"
	case "OUTPUTMODE", "", "pl":
		return "outputmode"
	case "rand", "rnd", "sr":
		return "rand"
	case "wclose", "wline":
		return "outstreams"
	case "midret", "mid", "rret", "rline":
		return "instreams"
	case "x":
		return "header"
	case "fact", "forin", "boom", "loop", "sum":
		return "frames"
	case "gl", "gd", "gvr", "gv":
		return "stdin"
	case "sysrc", "pipe":
		return "command"
	}
	return "other"
}

type mismatch struct {
	group, what string
	exp, got    string
}

// ---- reference draws of a new interpreter ----

// The statement fixes the value of a rand() only relative to a new
// interpreter: refDraws(seed) is the sequence of rand() values a NEW
// interpreter prints after srand(seed) -- for seed 1, the seed of a new
// interpreter, without any srand call.  The values are taken once, from
// interp.ExecProgram (which never sees ResetRand or an earlier run).
const refProgram = `BEGIN { if (s != "") srand(s + 0); for (i = 0; i < n; i++) printf "%.12f\n", rand() }`

const refLen = 400

var (
	refMu    sync.Mutex
	refTable = map[int][]string{}
	refSeeds = []int{1, 5, 7, 9} // the seeds the program uses
)

func refDraws(seed int) []string {
	refMu.Lock()
	defer refMu.Unlock()
	if d, ok := refTable[seed]; ok {
		return d
	}
	prog, err := parser.ParseProgram([]byte(refProgram), nil)
	must(err)
	var out bytes.Buffer
	sv := strconv.Itoa(seed)
	if seed == 1 {
		sv = ""
	}
	_, err = interp.ExecProgram(prog, &interp.Config{Stdin: strings.NewReader(""), Output: &out, Environ: []string{},
		Vars: []string{"s", sv, "n", strconv.Itoa(refLen)}})
	must(err)
	d := strings.Split(strings.TrimSpace(out.String()), "\n")
	if len(d) != refLen {
		panic("c14: reference draws: unexpected output")
	}
	refTable[seed] = d
	return d
}

// refDraw resolves the specification's "seed:idx" to the value of that draw.
func refDraw(sym string) (string, bool) {
	a, b, ok := strings.Cut(sym, ":")
	seed, e1 := strconv.Atoi(a)
	idx, e2 := strconv.Atoi(b)
	if !ok || e1 != nil || e2 != nil || seed < 0 || idx < 0 || idx >= refLen {
		return "", false
	}
	return refDraws(seed)[idx], true
}

var (
	symOnce  sync.Once
	symTable map[string]string
)

// drawSymbol is the inverse (for the recorder): "seed:idx" of the draw with
// this value among the seeds the program uses, "?" if there is none.
func drawSymbol(val string) string {
	symOnce.Do(func() {
		symTable = map[string]string{}
		for _, seed := range refSeeds {
			for i, v := range refDraws(seed) {
				if _, dup := symTable[v]; dup {
					panic("c14: two reference draws print the same value " + v)
				}
				symTable[v] = fmt.Sprintf("%d:%d", seed, i)
			}
		}
	})
	if sym, ok := symTable[val]; ok {
		return sym
	}
	return "?"
}

// diff compares a run's real output with the predicted chunk list.
func diff(exp []Chunk, got []byte) *mismatch {
	off := 0
	prev := ""
	for _, e := range exp {
		if e.K == "" { // raw text: the unkeyed line that follows the empty chunk "pl" / "pf" / "fc"
			w := e.V.Bytes()
			if !bytes.HasPrefix(got[off:], w) {
				end := off + len(w)
				if end > len(got) {
					end = len(got)
				}
				g := group(e.K)
				if prev == "pf" || prev == "fc" {
					g = group(prev)
				}
				return &mismatch{g, "text", fmt.Sprintf("%q", w), fmt.Sprintf("%q", got[off:end])}
			}
			off += len(w)
			prev = ""
			continue
		}
		prev = e.K
		c, no, ok := parseKeyed(got, off)
		if !ok || c.K != e.K {
			g := group(e.K)
			gotS := "<end of output>"
			if ok {
				gotS = c.K + "=" + string(c.V)
				// an unexpected chunk (for example x=... where the run should have failed); text of
				// the standard input that is missing or was not to be read names the mechanism itself
				if g != "stdin" {
					g = group(c.K)
				}
			} else if off < len(got) {
				gotS = string(got[off:])
			}
			return &mismatch{g, "sequence", e.K + "=" + e.V.String(), gotS}
		}
		switch e.Cmp {
		case "any":
		case "rnd":
			want, ok := refDraw(e.V.String())
			if !ok {
				return &mismatch{"rand", "bad-symbol", e.V.String(), string(c.V)}
			}
			if string(c.V) != want {
				return &mismatch{group(e.K), "value", fmt.Sprintf("%s=%s (draw %s of a new interpreter)", e.K, want, e.V.String()), c.K + "=" + string(c.V)}
			}
		default:
			if !bytes.Equal(c.V, e.V.Bytes()) {
				return &mismatch{group(e.K), "value", e.K + "=" + e.V.String(), c.K + "=" + string(c.V)}
			}
		}
		off = no
	}
	if off < len(got) {
		g := "other"
		if c, _, ok := parseKeyed(got, off); ok {
			g = group(c.K)
		}
		return &mismatch{g, "extra-output", "<end of output>", string(got[off:])}
	}
	return nil
}

func resetClass(vr string) string {
	if vr == "vars" || vr == "both" {
		return "after-ResetVars"
	}
	return "no-ResetVars"
}

// randClass: for the random generator the reset that matters is ResetRand.
func randClass(vr string) string {
	if vr == "rand" || vr == "both" {
		return "after-ResetRand"
	}
	return "no-ResetRand"
}

var cfgNote = map[string]string{
	"c1":  `; Vars FS=":"; OutputMode tsv; Args [inf]`,
	"c2":  "; InputMode csv header",
	"c5":  `; Argv0 "prog"; Args [g=G5 o2=B o3=C]; Environ [home=hh lang=c]`,
	"c6":  "; Args [o9=X]; Environ [user=bob]; Chars",
	"c7":  "; NoExec NoFileWrites NoFileReads NoArgVars",
	"c8":  "; Vars depth=400",
	"c9":  "; Vars depth=700",
	"c10": "; Vars depth=1000",
	"c11": "; Vars depth=1001",
}

func describe(c *Case) string {
	var sb strings.Builder
	sb.WriteString("interp.New(Program)")
	for _, r := range c.Runs {
		switch r.Vr {
		case "vars":
			sb.WriteString("; ResetVars")
		case "rand":
			sb.WriteString("; ResetRand")
		case "both":
			sb.WriteString("; ResetVars; ResetRand")
		}
		fmt.Fprintf(&sb, "; run mode=%s config=%s (%s%s) stdin=%q", r.Kind, r.Cfg, apiOf(r.Kind, r.Cfg), cfgNote[r.Cfg], stdinOf(r.Cfg, r.Tag))
	}
	return sb.String()
}

// usesCommand: the history starts a child process somewhere (the one part of a
// history that depends on the machine: a fork can fail under load).
func usesCommand(c *Case) bool {
	for _, r := range c.Runs {
		if r.Kind == "sys" || r.Kind == "pipe" {
			return true
		}
	}
	return false
}

// Replay is the hx.Replayer for Gen_Reuse exports.
func Replay(raw json.RawMessage) hx.Outcome {
	var c Case
	if err := json.Unmarshal(raw, &c); err != nil || len(c.Runs) == 0 {
		return hx.Outcome{Skipped: true, Note: "bad case"}
	}
	for _, r := range c.Runs {
		if r.Tag < 1 {
			return hx.Outcome{Skipped: true, Note: "bad case: run without tag"}
		}
	}
	oc := replayOnce(&c)
	// a history that starts commands is a failure only if it fails three times in a row
	for try := 0; try < 2 && oc.Fail != nil && usesCommand(&c); try++ {
		oc = replayOnce(&c)
	}
	return oc
}

func replayOnce(c *Case) hx.Outcome {
	s, err := newSession()
	if err != nil {
		return hx.Outcome{Skipped: true, Note: "program rejected: " + err.Error()}
	}
	w := dirPool.Get().(*workDir)
	defer dirPool.Put(w)
	os.Remove(w.wf)
	prog := describe(c)
	last := len(c.Runs) - 1
	for i, r := range c.Runs {
		s.reset(r.Vr)
		res := s.run(r.Kind, r.Cfg, r.Tag, w)
		// a disagreement in the first run is not about reuse: the interpreter is new
		pfx := "C14"
		if i == 0 {
			pfx = "C14-FRESH-MODEL"
		}
		if res.Panic != nil {
			return hx.Fail(pfx+"/panic/"+r.Kind, fmt.Sprintf("run %d (%s,%s) panicked: %v", i+1, r.Kind, r.Cfg, res.Panic), nil, fmt.Sprint(res.Panic), prog)
		}
		if i == last {
			m := diff(c.Out, res.Out)
			if m != nil && m.what == "sequence" && m.got == "<end of output>" && res.Err != r.Err && m.group != "calldepth" &&
				res.Err != "canceled" && res.Err != "deadline" {
				// the output just stops where the run failed although it should not have: the error class names it (below)
				m = nil
			}
			if m != nil {
				dir := "carried-over"
				if m.group == "globals" || m.group == "specials" || m.group == "rand" {
					dir = "wrong-value"
				}
				if m.group == "format" {
					// printf / sprintf gave what another Config (Chars) or CONVFMT would give
					dir = "setting-of-earlier-run"
				}
				if res.Err != r.Err && (res.Err == "canceled" || res.Err == "deadline") {
					// the output stops short because the run was ended by a context that is not its own
					return hx.Fail(fmt.Sprintf("%s/context/%s-instead-of-%s/%s", pfx, res.Err, r.Err, apiOf(r.Kind, r.Cfg)),
						fmt.Sprintf("run %d (mode %s, config %s) on the reused interpreter ends with a context's error (%s) although the context of its own call is not done", i+1, r.Kind, r.Cfg, res.Text),
						r.Err, res.Err, prog)
				}
				cls := resetClass(r.Vr)
				if m.group == "rand" {
					cls = randClass(r.Vr)
				}
				return hx.Fail(fmt.Sprintf("%s/%s/%s/%s", pfx, m.group, dir, cls),
					fmt.Sprintf("run %d (mode %s, config %s) on the reused interpreter: output differs from the specification (%s)", i+1, r.Kind, r.Cfg, m.what),
					m.exp, m.got, prog)
			}
		}
		if i != last && (res.Err != r.Err || res.Status != r.Status) {
			// The history up to this run is exported as a case of its own and judged there; what
			// follows a deviating run is outside the specification's prediction.
			return hx.Outcome{Skipped: true, Note: "a run before the last deviates; judged in the case that ends with it"}
		}
		if res.Err != r.Err {
			if res.Err == "canceled" || res.Err == "deadline" {
				return hx.Fail(fmt.Sprintf("%s/context/%s-instead-of-%s/%s", pfx, res.Err, r.Err, apiOf(r.Kind, r.Cfg)),
					fmt.Sprintf("run %d (mode %s, config %s) ends with a context's error (%s) although the context of its own call is not done", i+1, r.Kind, r.Cfg, res.Text),
					r.Err, res.Err, prog)
			}
			return hx.Fail(fmt.Sprintf("%s/error/%s-instead-of-%s/%s", pfx, res.Err, r.Err, resetClass(r.Vr)),
				fmt.Sprintf("run %d (mode %s, config %s): error class differs (%s)", i+1, r.Kind, r.Cfg, res.Text), r.Err, res.Err, prog)
		}
		if res.Status != r.Status {
			return hx.Fail(fmt.Sprintf("%s/status/carried-over/%s", pfx, resetClass(r.Vr)),
				fmt.Sprintf("run %d (mode %s, config %s): exit status differs", i+1, r.Kind, r.Cfg), r.Status, res.Status, prog)
		}
		// after both resets: the very same run on a new interpreter
		// (not for a run that seeds the generator from the clock)
		if i == last && i > 0 && r.Vr == "both" && r.Kind != "sr_time" {
			fs, err := newSession()
			must(err)
			fr := fs.run(r.Kind, r.Cfg, r.Tag, w)
			if fr.Panic == nil && (!bytes.Equal(fr.Out, res.Out) || fr.Status != res.Status || fr.Err != res.Err) {
				return hx.Fail("C14/fresh-comparison/differs/"+r.Kind,
					fmt.Sprintf("run %d (mode %s, config %s) after ResetVars+ResetRand differs from the same run on a new interpreter", i+1, r.Kind, r.Cfg),
					map[string]any{"out": string(fr.Out), "status": fr.Status, "err": fr.Err},
					map[string]any{"out": string(res.Out), "status": res.Status, "err": res.Err}, prog)
			}
		}
	}
	return hx.OK(len(c.Runs) >= 2)
}
