package c08

import (
	"bufio"
	"encoding/json"
	"fmt"
	"math/rand"
	"os"

	"github.com/benhoyt/goawk/interp"
	"github.com/benhoyt/goawk/parser"
	"github.com/benhoyt/goawk/verifharness/c07"
	"github.com/benhoyt/goawk/verifharness/hx"
)

// cfgEntry mirrors CsvReader!CfgMenu.
type cfgEntry struct {
	name    string
	sep     string
	comment string
	header  bool
}

var traceMenu = []cfgEntry{
	{"csv", ",", "", false},
	{"csv-hash", ",", "#", false},
	{"csv-header", ",", "", true},
	{"tsv", "\t", "", false},
	{"csv-bar-hh", "|", "#", true},
	{"csv-eacute", "\xc3\xa9", "", false},
}

// eventWriter cuts the program's unbuffered output into printed records and
// logs each one the moment it is complete.
type eventWriter struct {
	pending []byte
	put     func(v any)
}

func (w *eventWriter) Write(p []byte) (int, error) {
	w.pending = append(w.pending, p...)
	for len(w.pending) > 0 && w.pending[0] != 'H' {
		s, next, ok := ParseEntry(w.pending, 0)
		if !ok {
			break
		}
		fl := make([]hx.BS, len(s.Fields))
		for i, f := range s.Fields {
			fl[i] = hx.FromBytes(f)
		}
		w.put(map[string]any{"ev": "step", "nr": s.NR, "fields": fl, "text": hx.FromBytes(s.Line)})
		w.pending = w.pending[next:]
	}
	return len(p), nil
}

func genInput(r *rand.Rand, m cfgEntry) []byte {
	pieces := []string{"a", "b", "ab", m.sep, m.sep, "\"", "\"", "\"\"", "\n", "\n", "\r\n", "\r", " ", "", "\"a" + m.sep + "b\"", "\"a\nb\"", "\n\n"}
	if m.comment != "" {
		pieces = append(pieces, m.comment, "\n"+m.comment+"x\n")
	}
	var in []byte
	if r.Intn(5) == 0 {
		in = append(in, 0xEF, 0xBB, 0xBF)
	}
	ln := 8 + r.Intn(50)
	for len(in) < ln {
		in = append(in, pieces[r.Intn(len(pieces))]...)
	}
	if in[len(in)-1] == '\r' {
		in = append(in, '\n')
	}
	return in
}

// Record drives the real CSV reader on n seeded random (input, configuration,
// schedule) triples longer than the exhaustive model's and writes the real
// interleaving of reads and records as events for Trace_CsvReader.
func Record(seed int64, n int, out string) (int, error) {
	r := rand.New(rand.NewSource(seed))
	f, err := os.Create(out)
	if err != nil {
		return 0, err
	}
	defer f.Close()
	w := bufio.NewWriter(f)
	defer w.Flush()
	put := func(v any) {
		b, _ := json.Marshal(v)
		w.Write(b)
		w.WriteByte('\n')
	}
	for t := 0; t < n; t++ {
		m := traceMenu[r.Intn(len(traceMenu))]
		input := genInput(r, m)
		var sched []int
		rest := len(input)
		maxc := 1 + r.Intn(9)
		for rest > 0 {
			k := 1 + r.Intn(maxc)
			if k > rest {
				k = rest
			}
			sched = append(sched, k)
			rest -= k
		}
		src := ReadProgram(ModeString([]byte(m.sep), []byte(m.comment), m.header))
		prog, perr := parser.ParseProgram([]byte(src), nil)
		if perr != nil {
			return t, fmt.Errorf("driver program rejected: %v", perr)
		}
		put(map[string]any{"ev": "reset"})
		put(map[string]any{"ev": "start", "name": m.name, "input": hx.FromBytes(input)})
		cr := &c07.ChunkReader{Data: input, Sched: sched, OnRead: func(k int) {
			if k == 0 {
				put(map[string]any{"ev": "eof"})
			} else {
				put(map[string]any{"ev": "read", "n": k})
			}
		}}
		ew := &eventWriter{put: put}
		res := hx.RunProg(prog, nil, &interp.Config{Stdin: cr, Output: ew})
		if res.Panic != nil || res.Err != nil {
			// the run died: that is an observation about the code, not a driver problem
			put(map[string]any{"ev": "crash", "msg": fmt.Sprintf("%v %v", res.Panic, res.Err)})
			continue
		}
		_, names, ok := ParseOutput(ew.pending)
		if !ok || names == nil {
			return t, fmt.Errorf("driver output garbled: %q", ew.pending)
		}
		nl := make([]hx.BS, len(names))
		for i, nm := range names {
			nl[i] = hx.FromBytes(nm)
		}
		put(map[string]any{"ev": "names", "names": nl})
		put(map[string]any{"ev": "end"})
	}
	return n, nil
}
