// Package c08 binds spec/CsvReader.tla (and the writer of spec/Csv.tla) to
// the real CSV/TSV input and output modes: inputs exported by TLC
// (Gen_CsvReader) are delivered to the real interpreter under every delivery
// schedule and the records it sees (NF, fields, $0, FIELDS) are compared
// with the specification's CsvRead; field lists exported by Gen_CsvRoundTrip
// are printed (and rebuilt via $n assignment) in output mode and read back in
// input mode.
package c08

import (
	"bytes"
	"encoding/csv"
	"encoding/json"
	"fmt"
	"hash/fnv"
	"io"
	"os"
	"strconv"
	"strings"
	"unicode/utf8"

	"github.com/benhoyt/goawk/interp"
	"github.com/benhoyt/goawk/parser"
	"github.com/benhoyt/goawk/verifharness/c07"
	"github.com/benhoyt/goawk/verifharness/hx"
)

type Row struct {
	Fields []hx.BS `json:"fields"`
	Text   hx.BS   `json:"text"`
}

// ReadCase is one line exported by Gen_CsvReader.
type ReadCase struct {
	Fam     string  `json:"fam"`
	Name    string  `json:"name"`
	Sep     hx.BS   `json:"sep"`
	Comment hx.BS   `json:"comment"`
	Header  bool    `json:"header"`
	BOM     bool    `json:"bom"`
	Input   hx.BS   `json:"input"`
	Names   []hx.BS `json:"names"`
	Recs    []Row   `json:"recs"`
	Judge   bool    `json:"judge"`
	// NoGate is set by the binding self-test on deliberately corrupted
	// predictions, which the encoding/csv sanity gate would otherwise discard.
	NoGate bool `json:"nogate"`
	// Sched, if present, is one more delivery schedule to try (cases made from a recorded run carry theirs).
	Sched []int `json:"sched,omitempty"`
	// Dist: CsvReader!Disturbed(recs), what the disturbed reader must print
	Dist []struct {
		What   string  `json:"what"`
		NR     int     `json:"nr"`
		Text   hx.BS   `json:"text"`
		Fields []hx.BS `json:"fields"`
		NoText bool    `json:"notext"`
	} `json:"dist"`
}

// RTCase is one line exported by Gen_CsvRoundTrip.
type RTCase struct {
	Fam  string    `json:"fam"`
	Name string    `json:"name"`
	Sep  hx.BS     `json:"sep"`
	Recs [][]hx.BS `json:"recs"`
	Back [][]hx.BS `json:"back"`
	Via  string    `json:"via"`
}

// ModeString renders the INPUTMODE / OUTPUTMODE text of a configuration.
func ModeString(sep, comment []byte, header bool) string {
	s := "csv"
	switch string(sep) {
	case ",":
	case "\t":
		s = "tsv"
	default:
		s += " separator=" + string(sep)
	}
	if len(comment) > 0 {
		s += " comment=" + string(comment)
	}
	if header {
		s += " header"
	}
	return s
}

const dumpRule = `{ printf "%d:%d:%d:%s", NR, NF, length($0), $0; for (i = 1; i <= NF; i++) printf "%d:%s", length($i), $i; printf "\n" }` + "\n"
const dumpEnd = `END { n = 0; for (k in FIELDS) n++; printf "H%d:", n; for (i = 1; i <= n; i++) printf "%d:%s", length(FIELDS[i]), FIELDS[i]; printf "\n" }` + "\n"

// ReadProgram prints NR, NF, $0 and every field of every record, then the
// header names, all length-prefixed.
func ReadProgram(mode string) string {
	return "BEGIN { INPUTMODE = " + hx.AwkString([]byte(mode)) + " }\n" + dumpRule + dumpEnd
}

// Seen is one record as the AWK program saw it.
type Seen struct {
	NR     int
	Line   []byte
	Fields [][]byte
}

func readInt(b []byte, off int) (int, int, bool) {
	j := bytes.IndexByte(b[off:], ':')
	if j <= 0 {
		return 0, off, false
	}
	n, err := strconv.Atoi(string(b[off : off+j]))
	if err != nil || n < 0 {
		return 0, off, false
	}
	return n, off + j + 1, true
}

func readLP(b []byte, off int) ([]byte, int, bool) {
	n, off, ok := readInt(b, off)
	if !ok || off+n > len(b) {
		return nil, off, false
	}
	return b[off : off+n], off + n, true
}

// ParseEntry reads one printed record at b[off:].
func ParseEntry(b []byte, off int) (s Seen, next int, ok bool) {
	var nf int
	if s.NR, off, ok = readInt(b, off); !ok {
		return
	}
	if nf, off, ok = readInt(b, off); !ok || nf > 1<<20 {
		return s, off, false
	}
	if s.Line, off, ok = readLP(b, off); !ok {
		return
	}
	s.Fields = make([][]byte, 0, nf)
	for i := 0; i < nf; i++ {
		var f []byte
		if f, off, ok = readLP(b, off); !ok {
			return
		}
		s.Fields = append(s.Fields, f)
	}
	if off >= len(b) || b[off] != '\n' {
		return s, off, false
	}
	return s, off + 1, true
}

// ParseOutput reads all records and the final header-names line.
func ParseOutput(b []byte) (recs []Seen, names [][]byte, ok bool) {
	off := 0
	for off < len(b) && b[off] != 'H' {
		s, no, good := ParseEntry(b, off)
		if !good {
			return recs, nil, false
		}
		recs = append(recs, s)
		off = no
	}
	if off >= len(b) {
		return recs, nil, true // no END line (program without it)
	}
	n, off, good := readInt(b, off+1)
	if !good {
		return recs, nil, false
	}
	names = [][]byte{}
	for i := 0; i < n; i++ {
		var f []byte
		if f, off, good = readLP(b, off); !good {
			return recs, nil, false
		}
		names = append(names, f)
	}
	return recs, names, off+1 == len(b) && b[off] == '\n'
}

func noCR(b []byte) []byte { return bytes.ReplaceAll(b, []byte{'\r'}, nil) }

// normText is the form in which $0 is compared with a row's own text:
// carriage returns removed (the reader normalises CRLF inside quoted fields)
// and trailing line feeds removed (whether the line feeds of a quoted field
// left open at the end of input belong to the text is not fixed by the
// statement).  Bytes of a neighbouring record still show.
func normText(b []byte) []byte { return bytes.TrimRight(noCR(b), "\n") }

var bomBytes = []byte{0xEF, 0xBB, 0xBF}

// bomKept: the first row seen (header names or first record) starts with the byte-order mark.
func bomKept(seen []Seen, names [][]byte) bool {
	if len(names) > 0 && bytes.HasPrefix(names[0], bomBytes) {
		return true
	}
	if len(seen) > 0 {
		if bytes.HasPrefix(seen[0].Line, bomBytes) || len(seen[0].Fields) > 0 && bytes.HasPrefix(seen[0].Fields[0], bomBytes) {
			return true
		}
	}
	return false
}

func renderSeen(ss []Seen, names [][]byte) string {
	var sb strings.Builder
	for _, s := range ss {
		fmt.Fprintf(&sb, "NR=%d NF=%d $0=%q fields=%q\n", s.NR, len(s.Fields), s.Line, s.Fields)
	}
	fmt.Fprintf(&sb, "FIELDS=%q\n", names)
	return sb.String()
}

func bss(fs []hx.BS) [][]byte {
	out := make([][]byte, len(fs))
	for i, f := range fs {
		out[i] = f.Bytes()
	}
	return out
}

func renderSpec(c *ReadCase) string {
	var sb strings.Builder
	for i, r := range c.Recs {
		fmt.Fprintf(&sb, "NR=%d NF=%d $0=%q fields=%q\n", i+1, len(r.Fields), r.Text.Bytes(), bss(r.Fields))
	}
	fmt.Fprintf(&sb, "FIELDS=%q\n", bss(c.Names))
	return sb.String()
}

var maxAll = envInt("C08_MAXALL", 8)

func envInt(name string, def int) int {
	if s := os.Getenv(name); s != "" {
		if v, err := strconv.Atoi(s); err == nil {
			return v
		}
	}
	return def
}

func caseHash(raw []byte) uint64 {
	h := fnv.New64a()
	h.Write(raw)
	return h.Sum64()
}

// stdlibRows is the sanity gate on the specification's prediction:
// encoding/csv with LazyQuotes and FieldsPerRecord = -1 on the same bytes
// (without the byte-order mark, which encoding/csv does not know).
func stdlibRows(c *ReadCase) ([][]string, error) {
	body := c.Input.Bytes()
	if c.BOM {
		body = body[3:]
	}
	r := csv.NewReader(bytes.NewReader(body))
	r.LazyQuotes = true
	r.FieldsPerRecord = -1
	r.ReuseRecord = false
	r.Comma, _ = utf8.DecodeRune(c.Sep.Bytes())
	if len(c.Comment) > 0 {
		r.Comment, _ = utf8.DecodeRune(c.Comment.Bytes())
	}
	var rows [][]string
	for {
		rec, err := r.Read()
		if err == io.EOF {
			return rows, nil
		}
		if err != nil {
			return rows, err
		}
		rows = append(rows, rec)
	}
}

func gateAgrees(c *ReadCase) bool {
	rows, err := stdlibRows(c)
	if err != nil {
		return false
	}
	var spec [][]hx.BS
	if c.Header && len(c.Names) > 0 {
		spec = append(spec, c.Names)
	}
	for _, r := range c.Recs {
		spec = append(spec, r.Fields)
	}
	if len(spec) != len(rows) {
		return false
	}
	for i := range rows {
		if len(rows[i]) != len(spec[i]) {
			return false
		}
		for j := range rows[i] {
			if rows[i][j] != string(spec[i][j].Bytes()) {
				return false
			}
		}
	}
	return true
}

// Replay is the hx.Replayer for both export families.
func Replay(raw json.RawMessage) hx.Outcome {
	var probe struct {
		Fam string `json:"fam"`
	}
	if err := json.Unmarshal(raw, &probe); err != nil {
		return hx.Outcome{Skipped: true, Note: "bad case"}
	}
	switch probe.Fam {
	case "read":
		return replayRead(raw)
	case "rt":
		return replayRT(raw)
	}
	return hx.Outcome{Skipped: true, Note: "unknown family"}
}

func replayRead(raw json.RawMessage) hx.Outcome {
	var c ReadCase
	if err := json.Unmarshal(raw, &c); err != nil {
		return hx.Outcome{Skipped: true, Note: "bad case"}
	}
	if !c.NoGate && !gateAgrees(&c) {
		return hx.Outcome{Skipped: true, Note: "GATE: specification and encoding/csv disagree"}
	}
	input := c.Input.Bytes()
	mode := ModeString(c.Sep.Bytes(), c.Comment.Bytes(), c.Header)
	src := ReadProgram(mode)
	prog, perr := parser.ParseProgram([]byte(src), nil)
	if perr != nil {
		return hx.Outcome{Skipped: true, Note: "generated program rejected: " + perr.Error()}
	}
	n := len(input)
	cls := "read"
	if c.BOM {
		cls = "read-bom"
	}
	var whole []Seen
	var wholeNames [][]byte
	haveWhole := false
	scheds := c07.Schedules(n, maxAll, caseHash(raw))
	if len(c.Sched) > 0 {
		scheds = append(scheds[:1:1], append([][]int{c.Sched}, scheds[1:]...)...)
	}
	for _, sched := range scheds {
		sc := "chunked"
		if len(sched) <= 1 {
			sc = "whole"
		}
		desc := fmt.Sprintf("INPUTMODE=%q input=%q delivered as %v", mode, input, sched)
		res := hx.RunProg(prog, nil, &interp.Config{Stdin: &c07.ChunkReader{Data: input, Sched: sched}})
		if res.Panic != nil {
			return hx.Fail(fmt.Sprintf("C08/%s/%s/panic", cls, sc), fmt.Sprintf("panic: %v; %s", res.Panic, desc), nil, res.PanicStk, src)
		}
		if res.Err != nil {
			return hx.Fail(fmt.Sprintf("C08/%s/%s/error", cls, sc), fmt.Sprintf("run failed: %v; %s", res.Err, desc), nil, res.Err.Error(), src)
		}
		seen, names, ok := ParseOutput(res.Stdout)
		if !ok {
			return hx.Fail(fmt.Sprintf("C08/%s/%s/output", cls, sc), "program output is garbled; "+desc, nil, string(res.Stdout), src)
		}
		fail := func(what, msg string) hx.Outcome {
			if c.BOM && bomKept(seen, names) {
				// mechanism: the byte-order mark was not skipped and became data of the first row
				what = "bom-kept"
			}
			return hx.Fail(fmt.Sprintf("C08/%s/%s/%s", cls, sc, what), msg+"; "+desc, renderSpec(&c), renderSeen(seen, names), src)
		}
		if c.Judge {
			if len(seen) != len(c.Recs) {
				return fail("fields", fmt.Sprintf("%d records read, the specification has %d", len(seen), len(c.Recs)))
			}
			for i, s := range seen {
				if s.NR != i+1 {
					return fail("fields", fmt.Sprintf("record %d has NR=%d", i+1, s.NR))
				}
				if len(s.Fields) != len(c.Recs[i].Fields) {
					return fail("fields", fmt.Sprintf("record %d has NF=%d, the specification %d", i+1, len(s.Fields), len(c.Recs[i].Fields)))
				}
				for j := range s.Fields {
					if !bytes.Equal(s.Fields[j], c.Recs[i].Fields[j].Bytes()) {
						return fail("fields", fmt.Sprintf("field %d of record %d differs", j+1, i+1))
					}
				}
			}
			if len(names) != len(c.Names) {
				return fail("header", "number of header names differs")
			}
			for j := range names {
				if !bytes.Equal(names[j], c.Names[j].Bytes()) {
					return fail("header", fmt.Sprintf("header name %d differs", j+1))
				}
			}
			for i, s := range seen {
				if !bytes.Equal(normText(s.Line), normText(c.Recs[i].Text.Bytes())) {
					return fail("text", fmt.Sprintf("$0 of record %d is not the record's own text (compared without carriage returns and trailing line feeds)", i+1))
				}
			}
		}
		// independence of the delivery schedule (everything, also where the specification does not judge)
		if !haveWhole {
			whole, wholeNames, haveWhole = seen, names, true
			continue
		}
		same := len(seen) == len(whole) && len(names) == len(wholeNames)
		for i := 0; same && i < len(seen); i++ {
			same = bytes.Equal(normText(seen[i].Line), normText(whole[i].Line)) && len(seen[i].Fields) == len(whole[i].Fields)
			for j := 0; same && j < len(seen[i].Fields); j++ {
				same = bytes.Equal(seen[i].Fields[j], whole[i].Fields[j])
			}
		}
		for j := 0; same && j < len(names); j++ {
			same = bytes.Equal(names[j], wholeNames[j])
		}
		if !same {
			what := "vs-whole"
			if c.BOM && (bomKept(seen, names) || bomKept(whole, wholeNames)) {
				what = "bom-kept"
			}
			return hx.Fail(fmt.Sprintf("C08/%s/%s/%s", cls, sc, what), "records depend on the delivery schedule; "+desc,
				renderSeen(whole, wholeNames), renderSeen(seen, names), src)
		}
	}
	if c.Judge {
		if o := replayDisturbed(&c, mode, input, cls); o != nil {
			return *o
		}
	}
	return hx.OK(len(c.Recs) >= 1 && n >= 2)
}

// DisturbProgram reads the same input while doing, between the reads of the fields of a record, the other things
// that touch the reader's and the record's storage: a two-argument split() of the record (CSV-parsed in this mode),
// a `getline var` (which takes the NEXT record's text without touching the current fields), and `$0 = $0`.
// Every line it prints has the shape of the dump rule, so the same parser reads it:
//   the record; (plain records) the pieces of split as a pseudo-record without text; the record again;
//   the text getline var delivered as a pseudo-record without fields; the record again; (plain) after $0 = $0;
//   (plain next record) after $0 = that text, which must then have that record's fields.
func DisturbProgram(mode string) string {
	dump := `printf "%d:%d:%d:%s", NR, NF, length($0), $0; for (i = 1; i <= NF; i++) printf "%d:%s", length($i), $i; printf "\n"`
	return "BEGIN { INPUTMODE = " + hx.AwkString([]byte(mode)) + " }\n" +
		"{ " + dump + "\n" +
		`  plain = ($0 !~ /["\r\n]/)` + "\n" +
		`  n = split($0, parts); if (plain) { printf "%d:%d:0:", NR, n; for (i = 1; i <= n; i++) printf "%d:%s", length(parts[i]), parts[i]; printf "\n" }` + "\n" +
		"  " + dump + "\n" +
		`  got = ((getline nxt) > 0); if (got) { printf "%d:0:%d:%s\n", NR, length(nxt), nxt }` + "\n" +
		"  " + dump + "\n" +
		`  if (plain) { $0 = $0; ` + dump + " }\n" +
		`  if (got && nxt !~ /["\r\n]/) { $0 = nxt; ` + dump + " }\n}\n" + dumpEnd
}

func replayDisturbed(c *ReadCase, mode string, input []byte, cls string) *hx.Outcome {
	src := DisturbProgram(mode)
	prog, perr := parser.ParseProgram([]byte(src), nil)
	if perr != nil {
		o := hx.Outcome{Skipped: true, Note: "generated program rejected: " + perr.Error()}
		return &o
	}
	res := hx.RunProg(prog, nil, &interp.Config{Stdin: bytes.NewReader(input)})
	desc := fmt.Sprintf("INPUTMODE=%q input=%q, reader that also calls split(), getline var and $0 = $0", mode, input)
	ret := func(o hx.Outcome) *hx.Outcome { return &o }
	if res.Panic != nil {
		return ret(hx.Fail(fmt.Sprintf("C08/%s/disturbed/panic", cls), fmt.Sprintf("panic: %v; %s", res.Panic, desc), nil, res.PanicStk, src))
	}
	if res.Err != nil {
		return ret(hx.Fail(fmt.Sprintf("C08/%s/disturbed/error", cls), fmt.Sprintf("run failed: %v; %s", res.Err, desc), nil, res.Err.Error(), src))
	}
	seen, _, ok := ParseOutput(res.Stdout)
	if !ok {
		return ret(hx.Fail(fmt.Sprintf("C08/%s/disturbed/output", cls), "program output is garbled; "+desc, nil, string(res.Stdout), src))
	}
	// the expected sequence is the specification's (CsvReader!Disturbed), exported with the case
	type exp struct {
		nr     int
		text   []byte
		fields []hx.BS
		noText bool
		what   string
	}
	if c.Dist == nil {
		return nil // a case rebuilt from a recorded trace carries no disturbed view
	}
	var want []exp
	for _, d := range c.Dist {
		want = append(want, exp{d.NR, d.Text.Bytes(), d.Fields, d.NoText, d.What})
	}
	render := func() string {
		var sb strings.Builder
		for _, w := range want {
			fmt.Fprintf(&sb, "%s: NR=%d $0=%q fields=%q\n", w.what, w.nr, w.text, bss(w.fields))
		}
		return sb.String()
	}
	if len(seen) != len(want) {
		return ret(hx.Fail(fmt.Sprintf("C08/%s/disturbed/fields", cls), fmt.Sprintf("%d lines printed, %d expected; %s", len(seen), len(want), desc),
			render(), renderSeen(seen, nil), src))
	}
	for k, w := range want {
		s := seen[k]
		bad := s.NR != w.nr || len(s.Fields) != len(w.fields)
		for j := 0; !bad && j < len(w.fields); j++ {
			bad = !bytes.Equal(s.Fields[j], w.fields[j].Bytes())
		}
		if !bad && !w.noText {
			bad = !bytes.Equal(normText(s.Line), normText(w.text))
		}
		if bad {
			return ret(hx.Fail(fmt.Sprintf("C08/%s/disturbed/fields", cls), fmt.Sprintf("line %d (%s) differs; %s", k+1, w.what, desc),
				render(), renderSeen(seen, nil), src))
		}
	}
	return nil
}

// ---------------------------------------------------------------- round trip

func fieldClass(rec []hx.BS) string {
	if len(rec) == 1 && len(rec[0]) == 0 {
		return "single-empty-field"
	}
	has := func(ch byte) bool {
		for _, f := range rec {
			if bytes.IndexByte(f.Bytes(), ch) >= 0 {
				return true
			}
		}
		return false
	}
	switch {
	case has('\n'):
		return "newline"
	case has('"'):
		return "quote"
	case has(' '):
		return "space"
	}
	return "plain"
}

func sameRecs(a [][]hx.BS, seen []Seen) (int, bool) {
	for i := 0; i < len(a) || i < len(seen); i++ {
		if i >= len(a) || i >= len(seen) || len(a[i]) != len(seen[i].Fields) {
			return i, false
		}
		for j := range a[i] {
			if !bytes.Equal(a[i][j].Bytes(), seen[i].Fields[j]) {
				return i, false
			}
		}
	}
	return 0, true
}

func replayRT(raw json.RawMessage) hx.Outcome {
	var c RTCase
	if err := json.Unmarshal(raw, &c); err != nil || len(c.Recs) == 0 {
		return hx.Outcome{Skipped: true, Note: "bad case"}
	}
	mode := ModeString(c.Sep.Bytes(), nil, false)
	var want strings.Builder
	for _, r := range c.Recs {
		fmt.Fprintf(&want, "%q\n", bss(r))
	}
	vias := []string{"print", "rebuild"}
	if c.Via != "" {
		vias = []string{c.Via}
	}
	for _, via := range vias {
		var sb strings.Builder
		sb.WriteString("BEGIN {\n  OUTPUTMODE = " + hx.AwkString([]byte(mode)) + "\n")
		for _, r := range c.Recs {
			if via == "print" {
				sb.WriteString("  print ")
				for j, f := range r {
					if j > 0 {
						sb.WriteString(", ")
					}
					sb.WriteString(hx.AwkString(f.Bytes()))
				}
				sb.WriteString("\n")
			} else {
				sb.WriteString("  $0 = \"\"\n")
				for j, f := range r {
					fmt.Fprintf(&sb, "  $%d = %s\n", j+1, hx.AwkString(f.Bytes()))
				}
				sb.WriteString("  print\n")
			}
		}
		sb.WriteString("}\n")
		wsrc := sb.String()
		wres := hx.RunAwk(wsrc, nil, nil, nil)
		if wres.Panic != nil || wres.ParseErr != nil || wres.Err != nil {
			return hx.Fail("C08/roundtrip/"+via+"/write-failed", fmt.Sprintf("writer run failed: %v %v %v", wres.Panic, wres.ParseErr, wres.Err), nil, nil, wsrc)
		}
		written := wres.Stdout
		rsrc := "BEGIN { INPUTMODE = " + hx.AwkString([]byte(mode)) + " }\n" + dumpRule
		rprog, perr := parser.ParseProgram([]byte(rsrc), nil)
		if perr != nil {
			return hx.Outcome{Skipped: true, Note: "reader program rejected"}
		}
		for _, sched := range [][]int{nil, ones(len(written))} {
			rres := hx.RunProg(rprog, nil, &interp.Config{Stdin: &c07.ChunkReader{Data: written, Sched: sched}})
			if rres.Panic != nil || rres.Err != nil {
				return hx.Fail("C08/roundtrip/"+via+"/read-failed", fmt.Sprintf("reader run failed on %q: %v %v", written, rres.Panic, rres.Err), nil, nil, wsrc)
			}
			seen, _, ok := ParseOutput(rres.Stdout)
			if !ok {
				return hx.Fail("C08/roundtrip/"+via+"/output", "reader output is garbled", nil, string(rres.Stdout), wsrc)
			}
			if i, same := sameRecs(c.Back, seen); !same {
				k := i
				if k >= len(c.Recs) {
					k = len(c.Recs) - 1
				}
				// a lost single-empty-field record shifts the following ones: name the class by the first record that went wrong
				return hx.Fail(fmt.Sprintf("C08/roundtrip/%s/%s", via, fieldClass(c.Recs[k])),
					fmt.Sprintf("fields written with OUTPUTMODE=%q via %s are not read back by INPUTMODE=%q (first wrong record: %d); written bytes %q",
						mode, via, mode, i+1, written),
					want.String(), renderSeen(seen, nil), wsrc)
			}
		}
	}
	return hx.OK(true)
}

func ones(n int) []int {
	s := make([]int, n)
	for i := range s {
		s[i] = 1
	}
	return s
}
