// Package c16 binds spec/Resolver.tla to the real parser/resolver/compiler/VM:
// programs exported by TLC (Gen_Resolver) are rendered to AWK source in every
// definition order and under consistent renamings, parsed repeatedly (Go
// randomises map iteration), and the verdict is compared with the
// specification's declarative verdict; accepted programs are run and their
// output compared with the specification's run-time model (arrays by
// reference, scalars by value, fresh local arrays).  An argument of a call or
// of length() has a FORM (Resolver.tla): the bare variable x, the
// parenthesised variable (x), an expression x "", an element x[length(x)], or
// a constant; only the bare variable can be an array, every other form is a
// scalar value whatever it names.  In the other direction a
// seeded driver generates richer programs, records what the real resolver
// decided (verdict, types and indexes via ParserConfig.DebugTypes, output) and
// Trace_Resolver.tla validates the records.
package c16

import (
	"bytes"
	"encoding/json"
	"fmt"
	"strings"

	"github.com/benhoyt/goawk/parser"
	"github.com/benhoyt/goawk/verifharness/hx"
)

// Var is a variable reference ("L" parameter, "G" global) or a constant ("C");
// Fm is the form in which it is written as an argument of a call or of
// length(): "v" (or empty) bare, "p" parenthesised, "e" inside an expression,
// "x" an element of it.
type Var struct {
	Sc string `json:"sc"`
	I  int    `json:"i"`
	Fm string `json:"fm,omitempty"`
}

// Form returns the argument form, "c" for a constant.
func (v Var) Form() string {
	if v.Sc == "C" {
		return "c"
	}
	if v.Fm == "" {
		return "v"
	}
	return v.Fm
}

type Stmt struct {
	K    string `json:"k"`
	V    *Var   `json:"v,omitempty"`
	F    int    `json:"f,omitempty"`
	Args []Var  `json:"args,omitempty"`
}

type Func struct {
	Np   int    `json:"np"`
	Body []Stmt `json:"body"`
}

type Prog struct {
	Funcs []Func `json:"funcs"`
	Main  []Stmt `json:"main"`
}

type TypeEnt struct {
	F int    `json:"f"`
	I int    `json:"i"`
	T string `json:"t"`
	X int    `json:"x"`
}

type OutEnt struct {
	F int    `json:"f"`
	I int    `json:"i"`
	K string `json:"k"`
	N int    `json:"n"`
}

type ErrEnt struct {
	Kind string `json:"kind"`
	At   []int  `json:"at,omitempty"`
	Arg  int    `json:"arg,omitempty"`
}

type Case struct {
	Fam     string    `json:"fam"`
	Prog    Prog      `json:"prog"`
	Verdict string    `json:"verdict"`
	Types   []TypeEnt `json:"types"`
	Out     []OutEnt  `json:"out"`
	Omitted []string  `json:"omitted"` // kinds ("S", "A") of the parameters some call leaves without argument
	Norders int       `json:"norders"`
	Errs    []ErrEnt  `json:"errs"`
}

// ---- naming schemes (consistent renamings) ----

// Naming maps model identifiers to AWK names.
type Naming struct {
	Name   string
	Func   func(f int) string
	Param  func(f, i int) string
	Global func(g int) string
}

const letters = "abcdefghij"
const rletters = "zyxwvutsrq"

var Plain = Naming{"plain",
	func(f int) string { return "f" + string(letters[f-1]) },
	func(f, i int) string { return "p" + string(letters[i-1]) },
	func(g int) string { return "g" + string(letters[g-1]) }}

// Reversed reverses the alphabetical order of every class of names.
var Reversed = Naming{"reversed",
	func(f int) string { return "f" + string(rletters[f-1]) },
	func(f, i int) string { return "p" + string(rletters[i-1]) },
	func(g int) string { return "g" + string(rletters[g-1]) }}

// Shadow names parameters like the globals (a parameter hides the global of
// the same name); usable only when no function body mentions a global.
var Shadow = Naming{"shadow",
	func(f int) string { return "f" + string(letters[f-1]) },
	func(f, i int) string { return "g" + string(letters[i-1]) },
	func(g int) string { return "g" + string(letters[g-1]) }}

// Special names parameters like special variables (a parameter hides the special variable of the same name and
// is an ordinary local, scalar or array as its uses say).
var specialNames = []string{"RSTART", "RLENGTH", "SUBSEP", "CONVFMT", "OFMT", "FNR", "RT", "FILENAME", "NR", "NF"}
var Special = Naming{"special",
	func(f int) string { return "f" + string(letters[f-1]) },
	func(f, i int) string { return specialNames[i-1] },
	func(g int) string { return "g" + string(letters[g-1]) }}

func usesGlobalInFunc(p *Prog) bool {
	for _, fn := range p.Funcs {
		for _, st := range fn.Body {
			if st.V != nil && st.V.Sc == "G" {
				return true
			}
			for _, a := range st.Args {
				if a.Sc == "G" {
					return true
				}
			}
		}
	}
	return false
}

// ---- rendering ----

func varName(nm *Naming, f int, v Var) string {
	switch v.Sc {
	case "L":
		return nm.Param(f, v.I)
	case "G":
		return nm.Global(v.I)
	}
	return `"c"`
}

// exprText writes a variable in the given argument form.  The parenthesised
// and the expression form have two spellings each (chosen by the place).
func exprText(name, form string, alt int) string {
	switch form {
	case "p":
		if alt%2 == 1 {
			return "((" + name + "))"
		}
		return "(" + name + ")"
	case "e":
		if alt%2 == 1 {
			return `"" ` + name
		}
		return name + ` ""`
	case "x":
		// an element the array does not have yet (its elements are numbered 0..n-1): Resolver!ExprVal/ExprMem
		return name + "[length(" + name + ")]"
	}
	return name
}

func kcode(k string) string {
	if k == "len" {
		return "l"
	}
	return k
}

// Every use is written in one of several syntactic forms that have the same
// typing evidence and the same effect (the resolver handles each through a
// different branch of its visitor); the form is a function of the statement's
// place and of the program, not of the rendering, so that all renderings of
// one program print the same.
func renderStmt(sb *strings.Builder, nm *Naming, f, i int, st Stmt, salt int) {
	sb.WriteString("  ")
	form := (f*5 + i*3 + salt) % 4
	switch st.K {
	case "s":
		v := varName(nm, f, *st.V)
		switch form {
		case 1:
			fmt.Fprintf(sb, "sub(/$/, \"x\", %s)", v) // append one character through sub()'s target
		case 2:
			fmt.Fprintf(sb, "%s = sprintf(\"%%sx\", %s)", v, v)
		default:
			fmt.Fprintf(sb, "%s = %s \"x\"", v, v)
		}
		fmt.Fprintf(sb, "; printf \"%d.%d s %%d\\n\", length(%s)\n", f, i, v)
	case "a":
		v := varName(nm, f, *st.V)
		switch form {
		case 1:
			fmt.Fprintf(sb, "if (!((length(%s)) in %s)) %s[length(%s)] = 1", v, v, v, v) // InExpr
		case 2:
			fmt.Fprintf(sb, "delete %s[-1]; %s[length(%s)] = 1", v, v, v) // DeleteStmt
		case 3:
			fmt.Fprintf(sb, "for (kk in %s) kk = kk; %s[length(%s)] = 1", v, v, v) // ForInStmt
		default:
			fmt.Fprintf(sb, "%s[length(%s)] = 1", v, v)
		}
		fmt.Fprintf(sb, "; printf \"%d.%d a %%d\\n\", length(%s)\n", f, i, v)
	case "len":
		v := `"c"` // the constant operand of length() has one character (Resolver!ExecBody)
		if st.V.Sc != "C" {
			v = exprText(varName(nm, f, *st.V), st.V.Form(), form)
		}
		fmt.Fprintf(sb, "printf \"%d.%d l %%d\\n\", length(%s)\n", f, i, v)
	case "call":
		args := make([]string, len(st.Args))
		for j, a := range st.Args {
			if a.Sc == "C" {
				// the constant passed as argument number j has j characters (Resolver!BuildFrame)
				args[j] = `"` + strings.Repeat("c", j+1) + `"`
			} else {
				args[j] = exprText(varName(nm, f, a), a.Form(), form+j)
			}
		}
		call := nm.Func(st.F) + "(" + strings.Join(args, ", ") + ")"
		if f == 0 {
			sb.WriteString(call + "\n")
		} else {
			// calls made inside functions are bounded (Resolver!MaxDepth = 2)
			fmt.Fprintf(sb, "if (depth < 2) { depth++; %s; depth-- }\n", call)
		}
	}
}

func salt(p *Prog) int {
	n := len(p.Main)
	for _, fn := range p.Funcs {
		n += 2*fn.Np + len(fn.Body)
	}
	return n
}

// Render writes the program with its functions in the given order; the BEGIN
// block comes first or last.
func Render(p *Prog, nm *Naming, order []int, mainLast bool) string {
	var sb strings.Builder
	sl := salt(p)
	main := func() {
		sb.WriteString("BEGIN {\n")
		for i, st := range p.Main {
			renderStmt(&sb, nm, 0, i+1, st, sl)
		}
		sb.WriteString("}\n")
	}
	if !mainLast {
		main()
	}
	for _, f := range order {
		fn := p.Funcs[f-1]
		ps := make([]string, fn.Np)
		for i := range ps {
			ps[i] = nm.Param(f, i+1)
		}
		fmt.Fprintf(&sb, "function %s(%s) {\n", nm.Func(f), strings.Join(ps, ", "))
		for i, st := range fn.Body {
			renderStmt(&sb, nm, f, i+1, st, sl)
		}
		sb.WriteString("}\n")
	}
	if mainLast {
		main()
	}
	return sb.String()
}

func ExpectedOutput(out []OutEnt) string {
	var sb strings.Builder
	for _, o := range out {
		fmt.Fprintf(&sb, "%d.%d %s %d\n", o.F, o.I, kcode(o.K), o.N)
	}
	return sb.String()
}

// Orders returns the definition orders tried: all permutations up to three
// functions, a fixed handful beyond.
func Orders(n int) [][]int {
	id := make([]int, n)
	for i := range id {
		id[i] = i + 1
	}
	if n <= 1 {
		return [][]int{id}
	}
	if n <= 3 {
		var res [][]int
		var rec func(cur []int, rest []int)
		rec = func(cur, rest []int) {
			if len(rest) == 0 {
				res = append(res, append([]int{}, cur...))
				return
			}
			for i := range rest {
				r2 := append(append([]int{}, rest[:i]...), rest[i+1:]...)
				rec(append(cur, rest[i]), r2)
			}
		}
		rec(nil, id)
		return res
	}
	rev := make([]int, n)
	rot := make([]int, n)
	odd := []int{}
	for i := range id {
		rev[i] = n - i
		rot[i] = (i+n/2)%n + 1
	}
	for i := 1; i <= n; i += 2 {
		odd = append(odd, i)
	}
	for i := 2; i <= n; i += 2 {
		odd = append(odd, i)
	}
	return [][]int{id, rev, rot, odd}
}

// ---- classification of a program (for signatures and non-triviality) ----

// formClass names the argument forms other than bare variable and constant
// that the program contains: "arg-<form>" for an argument of a call,
// "length-<form>" for the operand of length(); when there are several, the
// first of paren, expr, elem (arguments before length) names the program.
// Empty when there is none.
func formClass(p *Prog) string {
	seen := map[string]bool{}
	scan := func(body []Stmt) {
		for _, st := range body {
			if st.K == "len" && st.V != nil {
				seen["length-"+st.V.Form()] = true
			}
			for _, a := range st.Args {
				seen["arg-"+a.Form()] = true
			}
		}
	}
	scan(p.Main)
	for _, fn := range p.Funcs {
		scan(fn.Body)
	}
	names := map[string]string{"p": "paren", "e": "expr", "x": "elem"}
	for _, fm := range []string{"p", "e", "x"} {
		for _, place := range []string{"arg-", "length-"} {
			if seen[place+fm] {
				return place + names[fm]
			}
		}
	}
	return ""
}

func class(p *Prog) string {
	if fc := formClass(p); fc != "" {
		return fc
	}
	rec, cst, fwd := false, false, false
	scan := func(f int, body []Stmt) {
		for _, st := range body {
			if st.K != "call" {
				continue
			}
			if st.F == f {
				rec = true
			}
			for _, a := range st.Args {
				if a.Sc == "C" {
					cst = true
				} else {
					fwd = true
				}
			}
		}
	}
	scan(0, p.Main)
	for i, fn := range p.Funcs {
		scan(i+1, fn.Body)
	}
	switch {
	case rec && fwd:
		return "recursion"
	case fwd && cst:
		return "forward+constant"
	case fwd:
		return "forward"
	case cst:
		return "constant"
	}
	return "direct"
}

// omitClass names what the calls of an accepted program leave out: the
// argument class of the frame signatures.
func omitClass(c *Case) string {
	sc, ar := false, false
	for _, k := range c.Omitted {
		if k == "A" {
			ar = true
		} else {
			sc = true
		}
	}
	switch {
	case sc && ar:
		return "omitted-scalars+arrays"
	case ar:
		return "omitted-arrays"
	case sc:
		return "omitted-scalars"
	}
	return "all-passed"
}

// ---- running one rendering ----

type rendering struct {
	naming   string
	order    []int
	mainLast bool
	src      string
	accepts  int // number of parses that accepted
	parses   int
	panicV   any
	panicStk string
	parseErr string
	out      []byte
	runErr   error
	ran      bool
}

func parseMany(r *rendering, n int) *parser.Program {
	var last *parser.Program
	for k := 0; k < n; k++ {
		func() {
			defer func() {
				if rv := recover(); rv != nil {
					r.panicV = rv
				}
			}()
			prog, err := parser.ParseProgram([]byte(r.src), nil)
			r.parses++
			if err == nil {
				r.accepts++
				last = prog
			} else {
				r.parseErr = err.Error()
			}
		}()
		if r.panicV != nil {
			return nil
		}
	}
	return last
}

// Repeats is the number of parses per rendering: (when several body orders are possible, otherwise).
var Repeats = [2]int{16, 4}

// Replay is the hx.Replayer for Gen_Resolver exports.
func Replay(raw json.RawMessage) hx.Outcome {
	var c Case
	if err := json.Unmarshal(raw, &c); err != nil || c.Verdict == "" {
		return hx.Outcome{Skipped: true, Note: "bad case"}
	}
	p := &c.Prog
	nf := len(p.Funcs)
	if nf > len(letters) {
		return hx.Outcome{Skipped: true, Note: "too many functions"}
	}
	wantAccept := c.Verdict == "accept"
	want := ExpectedOutput(c.Out)
	cls := class(p)
	namings := []*Naming{&Plain, &Reversed}
	if !usesGlobalInFunc(p) {
		namings = append(namings, &Shadow)
	}
	namings = append(namings, &Special)
	var rs []*rendering
	for ni, nm := range namings {
		for _, ord := range Orders(nf) {
			for _, ml := range []bool{false, true} {
				r := &rendering{naming: nm.Name, order: ord, mainLast: ml, src: Render(p, nm, ord, ml)}
				n := Repeats[1]
				if ni == 0 && c.Norders > 1 {
					n = Repeats[0]
				}
				prog := parseMany(r, n)
				if r.panicV != nil {
					return hx.Fail("C16/panic/parse", fmt.Sprintf("parser panicked: %v", r.panicV), c.Verdict, "panic", r.src)
				}
				if r.accepts != 0 && r.accepts != r.parses {
					return hx.Fail("C16/repeat/verdict-flaky/"+cls,
						fmt.Sprintf("%d of %d parses of the same source accepted it", r.accepts, r.parses),
						c.Verdict, fmt.Sprintf("%d/%d accepted; last error %s", r.accepts, r.parses, r.parseErr), r.src)
				}
				if prog != nil {
					res := hx.RunProg(prog, nil, nil)
					if res.Panic != nil {
						return hx.Fail("C16/panic/run", fmt.Sprintf("interpreter panicked: %v", res.Panic), want, res.PanicStk, r.src)
					}
					r.ran, r.out, r.runErr = true, res.Stdout, res.Err
				}
				rs = append(rs, r)
			}
		}
	}
	// 1. the verdict: the same for every order and renaming, and the declarative one
	first := rs[0]
	for _, r := range rs[1:] {
		if (r.accepts > 0) != (first.accepts > 0) {
			kind := "order"
			if r.naming != first.naming {
				kind = "rename"
			}
			return hx.Fail("C16/"+kind+"/verdict-differs/"+cls,
				fmt.Sprintf("verdict changes with %s: accepted=%v for [%s %v mainLast=%v] but %v for [%s %v mainLast=%v]",
					kind, first.accepts > 0, first.naming, first.order, first.mainLast, r.accepts > 0, r.naming, r.order, r.mainLast),
				c.Verdict, first.parseErr+r.parseErr, first.src+"\n# ---- versus ----\n"+r.src)
		}
	}
	if (first.accepts > 0) != wantAccept {
		real := "reject"
		if first.accepts > 0 {
			real = "accept"
		}
		return hx.Fail(fmt.Sprintf("C16/verdict/spec-%s-real-%s/%s", c.Verdict, real, cls),
			"parse-time verdict differs from the declarative typing", c.Verdict, real+" "+first.parseErr, first.src)
	}
	if !wantAccept {
		return hx.OK(cls != "direct")
	}
	// 2. behaviour of accepted programs
	for _, r := range rs {
		if r.runErr != nil {
			return hx.Fail("C16/run/runtime-error/"+cls, "accepted program failed at run time: "+r.runErr.Error(), want, string(r.out), r.src)
		}
	}
	for _, r := range rs[1:] {
		if !bytes.Equal(r.out, first.out) {
			kind := "order"
			if r.naming != first.naming {
				kind = "rename"
			}
			return hx.Fail("C16/"+kind+"/output-differs/"+cls,
				fmt.Sprintf("output changes with %s ([%s %v mainLast=%v] vs [%s %v mainLast=%v])", kind,
					first.naming, first.order, first.mainLast, r.naming, r.order, r.mainLast),
				string(first.out), string(r.out), first.src+"\n# ---- versus ----\n"+r.src)
		}
	}
	if string(first.out) != want {
		gl, wl := strings.Split(string(first.out), "\n"), strings.Split(want, "\n")
		kind := "extra-output"
		for i, w := range wl {
			if i >= len(gl) || gl[i] != w {
				kind = "missing-output"
				if f := strings.Fields(w); len(f) >= 2 {
					kind = map[string]string{"s": "scalar-value", "a": "array-count", "l": "length"}[f[1]]
				}
				break
			}
		}
		if oc := omitClass(&c); oc != "all-passed" {
			// some call leaves parameters without argument: the callee's frame (passed scalars copied in, missing
			// scalars uninitialised, missing arrays fresh and empty on every call) is what the model predicts here
			return hx.Fail("C16/run/frame/"+kind+"/"+oc, "output of an accepted program whose calls pass fewer arguments than parameters "+
				"differs from the specification's run-time model (passed scalars visible in the callee, omitted scalars uninitialised, "+
				"omitted arrays fresh on every call)", want, string(first.out), first.src)
		}
		return hx.Fail("C16/run/output/"+kind+"/"+cls, "output of the accepted program differs from the specification's run-time model",
			want, string(first.out), first.src)
	}
	return hx.OK(cls != "direct" || len(c.Omitted) > 0)
}
