package c16

import (
	"bufio"
	"bytes"
	"encoding/json"
	"fmt"
	"math/rand"
	"os"
	"regexp"
	"sort"
	"strconv"
	"strings"

	"github.com/benhoyt/goawk/parser"
	"github.com/benhoyt/goawk/verifharness/hx"
)

// ---- random programs, richer than the exhaustive universes of ResolverGen ----

// GenProg draws a program: 1-4 functions with 0-4 parameters, bodies of up
// to 4 statements that may use globals directly, calls with fewer arguments
// than parameters (the omitted ones being any mix of scalars and local
// arrays), recursion; arguments of calls and of length() in every form (bare
// variable, parenthesised, inside an expression, an element, a constant).
// Uses follow an intended typing most of the time so that a good share of the
// programs is accepted.
func GenProg(r *rand.Rand) *Prog {
	nf := 1 + r.Intn(4)
	const ng = 3
	p := &Prog{Funcs: make([]Func, nf)}
	intent := map[[2]int]bool{} // node -> intended to be an array
	for f := 1; f <= nf; f++ {
		p.Funcs[f-1].Np = r.Intn(5)
		for i := 1; i <= p.Funcs[f-1].Np; i++ {
			intent[[2]int{f, i}] = r.Intn(2) == 0
		}
	}
	for g := 1; g <= ng; g++ {
		intent[[2]int{0, g}] = r.Intn(2) == 0
	}
	sloppy := r.Intn(4) == 0 // ignore the intended typing now and then
	node := func(f int, v Var) [2]int {
		if v.Sc == "L" {
			return [2]int{f, v.I}
		}
		return [2]int{0, v.I}
	}
	pickVar := func(f int) Var {
		np := 0
		if f > 0 {
			np = p.Funcs[f-1].Np
		}
		if np > 0 && r.Intn(4) != 0 {
			return Var{Sc: "L", I: 1 + r.Intn(np)}
		}
		return Var{Sc: "G", I: 1 + r.Intn(ng)}
	}
	// a form for variable v (of function f) that fits the intended typing: an
	// element when v is meant to be an array, (v) or v "" when it is a scalar
	pickForm := func(f int, v Var) string {
		if sloppy && r.Intn(3) == 0 {
			return []string{"p", "e", "x"}[r.Intn(3)]
		}
		if intent[node(f, v)] {
			return "x"
		}
		return []string{"p", "e"}[r.Intn(2)]
	}
	body := func(f int, maxLen int) []Stmt {
		n := r.Intn(maxLen + 1)
		var b []Stmt
		for k := 0; k < n; k++ {
			if r.Intn(5) < 2 {
				g := 1 + r.Intn(nf)
				na := r.Intn(p.Funcs[g-1].Np + 1)
				st := Stmt{K: "call", F: g, Args: []Var{}}
				for j := 1; j <= na; j++ {
					var a Var
					for try := 0; try < 6; try++ {
						if r.Intn(6) == 0 {
							a = Var{Sc: "C"}
						} else {
							a = pickVar(f)
							if r.Intn(4) == 0 { // an expression over the variable: a scalar value
								a.Fm = pickForm(f, a)
							}
						}
						arr := a.Form() == "v" && intent[node(f, a)]
						if sloppy || r.Intn(8) == 0 || arr == intent[[2]int{g, j}] {
							break
						}
					}
					st.Args = append(st.Args, a)
				}
				b = append(b, st)
				continue
			}
			v := pickVar(f)
			k := "s"
			if intent[node(f, v)] != (!sloppy && r.Intn(12) == 0) {
				k = "a"
			}
			fm := ""
			if r.Intn(6) == 0 {
				k = "len"
				switch r.Intn(8) {
				case 0, 1, 2:
					fm = pickForm(f, v)
				case 3:
					v = Var{Sc: "C"}
				}
			}
			b = append(b, Stmt{K: k, V: &Var{Sc: v.Sc, I: v.I, Fm: fm}})
		}
		return b
	}
	for f := 1; f <= nf; f++ {
		p.Funcs[f-1].Body = body(f, 4)
	}
	p.Main = body(0, 5)
	for g := 1; g <= ng; g++ {
		p.Main = append(p.Main, Stmt{K: "len", V: &Var{Sc: "G", I: g}})
	}
	return p
}

// varJSON always writes the form (Resolver.tla reads it of every variable reference).
func varJSON(v Var) map[string]any {
	fm := v.Fm
	if fm == "" || v.Sc == "C" {
		fm = "v"
	}
	return map[string]any{"sc": v.Sc, "i": v.I, "fm": fm}
}

func ProgJSON(p *Prog) map[string]any {
	stmts := func(b []Stmt) []any {
		out := []any{}
		for _, st := range b {
			if st.K == "call" {
				args := []any{}
				for _, a := range st.Args {
					args = append(args, varJSON(a))
				}
				out = append(out, map[string]any{"k": "call", "f": st.F, "args": args})
			} else {
				out = append(out, map[string]any{"k": st.K, "v": varJSON(*st.V)})
			}
		}
		return out
	}
	fs := []any{}
	for _, fn := range p.Funcs {
		fs = append(fs, map[string]any{"np": fn.Np, "body": stmts(fn.Body)})
	}
	return map[string]any{"funcs": fs, "main": stmts(p.Main)}
}

var typeLine = regexp.MustCompile(`^  (\w+): (scalar|array) (\d+)$`)
var funcLine = regexp.MustCompile(`^function (\w+)\(`)

// parseDebugTypes reads the text ParserConfig.DebugTypes produces:
// scope ("" for globals) -> name -> (type, index)
func parseDebugTypes(text string) map[string]map[string][2]string {
	res := map[string]map[string][2]string{}
	cur := ""
	for _, line := range strings.Split(text, "\n") {
		if m := funcLine.FindStringSubmatch(line); m != nil {
			cur = m[1]
			res[cur] = map[string][2]string{}
		} else if line == "globals" {
			cur = ""
			res[cur] = map[string][2]string{}
		} else if m := typeLine.FindStringSubmatch(line); m != nil {
			res[cur][m[1]] = [2]string{m[2], m[3]}
		}
	}
	return res
}

func globalIDs(p *Prog) []int {
	seen := map[int]bool{}
	scan := func(b []Stmt) {
		for _, st := range b {
			if st.V != nil && st.V.Sc == "G" {
				seen[st.V.I] = true
			}
			for _, a := range st.Args {
				if a.Sc == "G" {
					seen[a.I] = true
				}
			}
		}
	}
	scan(p.Main)
	for _, fn := range p.Funcs {
		scan(fn.Body)
	}
	ids := []int{}
	for g := range seen {
		ids = append(ids, g)
	}
	sort.Ints(ids)
	return ids
}

// Observe parses (with DebugTypes) and runs one rendering of p, and returns
// the event describing what the real code decided.
func Observe(p *Prog, nm *Naming, order []int, mainLast bool) (map[string]any, error) {
	src := Render(p, nm, order, mainLast)
	var dbg bytes.Buffer
	var prog *parser.Program
	var perr error
	var pv any
	func() {
		defer func() { pv = recover() }()
		prog, perr = parser.ParseProgram([]byte(src), &parser.ParserConfig{DebugTypes: true, DebugWriter: &dbg})
	}()
	gids := globalIDs(p)
	// global ids in the order of their names
	gorder := append([]int{}, gids...)
	sort.Slice(gorder, func(a, b int) bool { return nm.Global(gorder[a]) < nm.Global(gorder[b]) })
	ev := map[string]any{"ev": "step", "op": "resolve", "run": "none", "prog": ProgJSON(p), "gorder": gorder, "naming": nm.Name, "src": src,
		"types": []any{}, "out": []any{}}
	if pv != nil {
		ev["verdict"] = "panic"
		return ev, nil
	}
	if perr != nil {
		ev["verdict"] = "reject"
		ev["msg"] = perr.Error()
		return ev, nil
	}
	ev["verdict"] = "accept"
	dt := parseDebugTypes(dbg.String())
	tcode := map[string]string{"scalar": "S", "array": "A"}
	types := []any{}
	// globals: the real index counts ARGV, ENVIRON, FIELDS and the harness's
	// `depth` too; what the specification predicts is the rank among the
	// program's own globals of the same type
	type gi struct {
		id, idx int
		t       string
	}
	var gs []gi
	for _, g := range gids {
		e, ok := dt[""][nm.Global(g)]
		if !ok {
			// the parser accepted the program without giving this variable a type: an observation (type "?")
			// that Trace_Resolver rejects, not a failure of the driver
			gs = append(gs, gi{g, -1, "?"})
			continue
		}
		x, _ := strconv.Atoi(e[1])
		gs = append(gs, gi{g, x, tcode[e[0]]})
	}
	for _, a := range gs {
		rank := 0
		for _, b := range gs {
			if b.t == a.t && b.idx < a.idx {
				rank++
			}
		}
		types = append(types, map[string]any{"f": 0, "i": a.id, "t": a.t, "x": rank})
	}
	for f := range p.Funcs {
		for i := 1; i <= p.Funcs[f].Np; i++ {
			e, ok := dt[nm.Func(f+1)][nm.Param(f+1, i)]
			if !ok {
				types = append(types, map[string]any{"f": f + 1, "i": i, "t": "?", "x": -1})
				continue
			}
			x, _ := strconv.Atoi(e[1])
			types = append(types, map[string]any{"f": f + 1, "i": i, "t": tcode[e[0]], "x": x})
		}
	}
	ev["types"] = types
	res := hx.RunProg(prog, nil, nil)
	if res.Panic != nil {
		ev["run"] = "panic"
		return ev, nil
	}
	if res.Err != nil {
		ev["run"] = "error"
		ev["msg"] = res.Err.Error()
		return ev, nil
	}
	ev["run"] = "ok"
	out := []any{}
	for _, line := range strings.Split(strings.TrimSuffix(string(res.Stdout), "\n"), "\n") {
		if line == "" {
			continue
		}
		var f, i, n int
		var k string
		if _, err := fmt.Sscanf(line, "%d.%d %s %d", &f, &i, &k, &n); err != nil {
			return nil, fmt.Errorf("unreadable output line %q", line)
		}
		if k == "l" {
			k = "len"
		}
		out = append(out, map[string]any{"f": f, "i": i, "k": k, "n": n})
	}
	ev["out"] = out
	return ev, nil
}

// Record writes n observed resolutions of random programs as events for
// Trace_Resolver.tla.
func Record(seed int64, n int, out string) (int, error) {
	r := rand.New(rand.NewSource(seed))
	f, err := os.Create(out)
	if err != nil {
		return 0, err
	}
	defer f.Close()
	w := bufio.NewWriter(f)
	defer w.Flush()
	emit := func(v any) {
		b, _ := json.Marshal(v)
		w.Write(b)
		w.WriteByte('\n')
	}
	for t := 0; t < n; t++ {
		p := GenProg(r)
		nm := &Plain
		if r.Intn(3) == 0 {
			nm = &Reversed
		}
		ords := Orders(len(p.Funcs))
		ev, err := Observe(p, nm, ords[r.Intn(len(ords))], r.Intn(2) == 0)
		if err != nil {
			return t, err
		}
		emit(map[string]any{"ev": "reset"})
		emit(ev)
	}
	return n, nil
}
