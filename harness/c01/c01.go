// Package c01 binds spec/AwkSem.tla (reference semantics over the syntax tree)
// to the real compiler + VM: programs exported by TLC (Gen_AwkSem) are rendered
// to source, parsed, compiled and run by the real packages; standard output,
// exit status and error/no-error are compared with the specification's
// prediction, and semantically equivalent spellings (metamorphic variants
// derived by the specification) must agree with each other.
package c01

import (
	"bytes"
	"encoding/json"
	"fmt"
	"sync"
	"sync/atomic"

	"github.com/benhoyt/goawk/internal/compiler"
	"github.com/benhoyt/goawk/interp"

	"github.com/benhoyt/goawk/verifharness/awkast"
	"github.com/benhoyt/goawk/verifharness/hx"
)

type exp struct {
	Out    hx.BS `json:"out"`
	Status int   `json:"status"`
	Err    bool  `json:"err"`
}

type caseT struct {
	Fam    string            `json:"fam"`
	Mech   string            `json:"mech"` // compiler mechanism the family member targets (used in signatures)
	Prog   json.RawMessage   `json:"prog"`
	Vars   []json.RawMessage `json:"variants"` // equivalent spellings of prog
	Input  json.RawMessage   `json:"input"`
	Expect exp               `json:"expect"`
	// EquivOnly: the specification predicts no output for this program (it uses values outside the numeric
	// model); it only asserts that all spellings are equivalent, so they are compared with each other
	EquivOnly bool `json:"equivonly"`
}

func runOne(progRaw json.RawMessage, input []byte) (string, *hx.RunResult, error) {
	node, err := awkast.Decode(progRaw)
	if err != nil {
		return "", nil, err
	}
	var src string
	func() {
		defer func() {
			if r := recover(); r != nil {
				err = fmt.Errorf("render: %v", r)
			}
		}()
		src = awkast.Program(node)
	}()
	if err != nil {
		return "", nil, err
	}
	return src, hx.RunAwk(src, input, nil, nil), nil
}

func judge(c *caseT, which string, src string, res *hx.RunResult) *hx.Outcome {
	mech := c.Mech
	if mech == "" {
		mech = c.Fam
	}
	if res.Panic != nil {
		o := hx.Fail("C01/"+mech+"/panic", fmt.Sprintf("[%s] panic: %v", which, res.Panic), nil, res.PanicStk, src)
		return &o
	}
	if res.ParseErr != nil {
		o := hx.Outcome{Skipped: true, Note: "generated program rejected by the parser: " + res.ParseErr.Error() + "\n" + src}
		return &o
	}
	if res.TimedOut {
		o := hx.Fail("C01/"+mech+"/hang", "["+which+"] the specification's run terminates, the real run does not", c.Expect, "timeout", src)
		return &o
	}
	if !bytes.Equal(res.Stdout, c.Expect.Out.Bytes()) {
		o := hx.Fail("C01/"+mech+"/stdout", "["+which+"] standard output differs from the reference semantics",
			string(c.Expect.Out.Bytes()), string(res.Stdout), src)
		return &o
	}
	if c.Expect.Err != (res.Err != nil) {
		o := hx.Fail("C01/"+mech+"/error-outcome", fmt.Sprintf("[%s] spec error=%v real error=%v", which, c.Expect.Err, res.Err),
			c.Expect, fmt.Sprint(res.Err), src)
		return &o
	}
	if !c.Expect.Err && res.Status != c.Expect.Status {
		o := hx.Fail("C01/"+mech+"/exit-status", fmt.Sprintf("[%s] exit status %d, reference semantics %d", which, res.Status, c.Expect.Status),
			c.Expect.Status, res.Status, src)
		return &o
	}
	return nil
}

// Executed-instruction counts per opcode, collected through the verif step hook:
// a vacuity guard (an opcode the families never execute is a compiler/VM path
// the check does not reach) reported in the evidence.
var (
	opCounts [256]atomic.Int64
	hookOnce sync.Once
)

func installHook() {
	hookOnce.Do(func() {
		interp.SetVerifStepHook(func(i interp.VerifStepInfo) {
			if int(i.Op) >= 0 && int(i.Op) < len(opCounts) {
				opCounts[int(i.Op)].Add(1)
			}
		})
	})
}

// Finish adds the opcode coverage to the replay summary.
func Finish(sum *hx.Summary) {
	seen, unseen := []string{}, []string{}
	for op := compiler.Nop + 1; op < compiler.EndOpcode; op++ {
		if opCounts[int(op)].Load() > 0 {
			seen = append(seen, op.String())
		} else {
			unseen = append(unseen, op.String())
		}
	}
	if sum.Extra == nil {
		sum.Extra = map[string]any{}
	}
	sum.Extra["opcodes_executed"] = len(seen)
	sum.Extra["opcodes_never_executed"] = unseen
}

// Replay is the hx.Replayer for Gen_AwkSem exports.
func Replay(raw json.RawMessage) hx.Outcome {
	installHook()
	var c caseT
	if err := json.Unmarshal(raw, &c); err != nil {
		return hx.Outcome{Skipped: true, Note: "bad case: " + err.Error()}
	}
	input := awkast.Input(mustAny(c.Input))
	src, res, err := runOne(c.Prog, input)
	if err != nil {
		return hx.Outcome{Fail: &hx.Failure{Sig: "HARNESS-PANIC", What: err.Error()}}
	}
	if c.EquivOnly {
		if res.Panic != nil || res.ParseErr != nil || res.TimedOut {
			if res.ParseErr != nil {
				return hx.Outcome{Skipped: true, Note: "rejected by the parser: " + res.ParseErr.Error()}
			}
			return hx.Fail("C01/"+c.Mech+"/panic", fmt.Sprintf("panic or hang: %v", res.Panic), nil, res.PanicStk, src)
		}
		// the first spelling's own outcome becomes the reference for the others
		c.Expect = exp{Out: hx.FromBytes(res.Stdout), Status: res.Status, Err: res.Err != nil}
	}
	if o := judge(&c, "program", src, res); o != nil {
		return *o
	}
	for i, v := range c.Vars {
		vsrc, vres, err := runOne(v, input)
		if err != nil {
			return hx.Outcome{Fail: &hx.Failure{Sig: "HARNESS-PANIC", What: err.Error()}}
		}
		if o := judge(&c, fmt.Sprintf("equivalent spelling %d", i+1), vsrc, vres); o != nil {
			if o.Fail != nil {
				o.Fail.Program = "--- original (agrees with the specification)\n" + src + "--- variant\n" + vsrc
			}
			return *o
		}
	}
	return hx.OK(true)
}

func mustAny(raw json.RawMessage) any {
	var v any
	json.Unmarshal(raw, &v)
	return v
}
