package c01

import (
	"bufio"
	"encoding/json"
	"fmt"
	"math/rand"
	"os"

	"github.com/benhoyt/goawk/verifharness/awkast"
	"github.com/benhoyt/goawk/verifharness/hx"
)

// Random program generator for the code -> spec direction: well-typed,
// terminating AWK programs over the constructs AwkSem.tla specifies, as the
// same JSON syntax trees the specification exports.  The programs are run on
// the real interpreter; Trace_AwkSem.tla evaluates the reference semantics on
// the recorded tree and accepts or rejects the recorded outcome.

type node = map[string]any

type gen struct {
	r       *rand.Rand
	loopN   int
	inFunc  string // "" | "f" | "g"
	inLoop  int
	inRule  bool
	inForIn int
}

func bs(s string) []int {
	out := make([]int, len(s))
	for i := range s {
		out[i] = int(s[i])
	}
	return out
}

func num(n int) node  { return node{"k": "num", "n": n} }
func str(s string) node { return node{"k": "str", "s": bs(s)} }
func vr(n string) node  { return node{"k": "var", "name": n} }
func none() node        { return node{"k": "none"} }

var strMenu = []string{"a", "b", "10", "3c", "", "ab", " 7", "-2", "c,d", "abba", "b&b"}

func rlit(c byte) node { return node{"k": "lit", "c": int(c)} }

// regex menu (trees of spec/Regex.tla; no character classes, whose sets would need conversion in TLC)
var reMenu = []node{
	rlit('a'),
	{"k": "plus", "r": rlit('b')},
	{"k": "alt", "l": rlit('a'), "r": node{"k": "cat", "l": rlit('a'), "r": rlit('b')}},
	{"k": "cat", "l": rlit('b'), "r": node{"k": "opt", "r": rlit('a')}},
	{"k": "cat", "l": node{"k": "bol"}, "r": rlit('a')},
	{"k": "cat", "l": rlit('1'), "r": node{"k": "star", "r": rlit('0')}},
}
var scalars = []string{"x", "y", "z"}
var arrays = []string{"a", "b"}

func (g *gen) scalarName() string {
	if g.inFunc != "" && g.r.Intn(2) == 0 {
		return "p"
	}
	if g.inFunc == "f" && g.r.Intn(3) == 0 {
		return "q"
	}
	return scalars[g.r.Intn(len(scalars))]
}

func (g *gen) arrayName() string {
	if g.inFunc == "g" && g.r.Intn(2) == 0 {
		return "A"
	}
	return arrays[g.r.Intn(len(arrays))]
}

func (g *gen) lvalue(d int) node {
	switch g.r.Intn(6) {
	case 0, 1, 2:
		return vr(g.scalarName())
	case 3:
		return node{"k": "field", "e": num(g.r.Intn(4))}
	default:
		return node{"k": "idx", "arr": g.arrayName(), "e": g.expr(d - 1)}
	}
}

func (g *gen) expr(d int) node {
	if d <= 0 {
		switch g.r.Intn(7) {
		case 0, 1:
			return num(g.r.Intn(10))
		case 2:
			return str(strMenu[g.r.Intn(len(strMenu))])
		case 3:
			return node{"k": "field", "e": num(g.r.Intn(4))}
		case 4:
			return vr([]string{"NR", "NF"}[g.r.Intn(2)])
		default:
			return vr(g.scalarName())
		}
	}
	switch k := g.r.Intn(100); {
	case k < 12:
		return g.expr(0)
	case k < 34:
		ops := []string{"+", "-", "*", "%", "cat", "cat", "+"}
		return node{"k": "bin", "op": ops[g.r.Intn(len(ops))], "l": g.expr(d - 1), "r": g.expr(d - 1)}
	case k < 46:
		ops := []string{"<", "<=", "==", "!=", ">", ">="}
		return node{"k": "bin", "op": ops[g.r.Intn(len(ops))], "l": g.expr(d - 1), "r": g.expr(d - 1)}
	case k < 52:
		ops := []string{"&&", "||"}
		return node{"k": "bin", "op": ops[g.r.Intn(2)], "l": g.expr(d - 1), "r": g.expr(d - 1)}
	case k < 57:
		return node{"k": "un", "op": []string{"-", "!", "+"}[g.r.Intn(3)], "e": g.expr(d - 1)}
	case k < 64:
		return node{"k": "assign", "lv": g.lvalue(d), "e": g.expr(d - 1)}
	case k < 70:
		return node{"k": "aug", "op": []string{"+", "-", "*", "%"}[g.r.Intn(4)], "lv": g.lvalue(d), "e": g.expr(d - 1)}
	case k < 77:
		return node{"k": "incr", "op": []string{"++", "--"}[g.r.Intn(2)], "pre": g.r.Intn(2) == 0, "lv": g.lvalue(d)}
	case k < 81:
		return node{"k": "cond", "c": g.expr(d - 1), "t": g.expr(d - 1), "f": g.expr(d - 1)}
	case k < 84:
		return node{"k": "in", "e": g.expr(d - 1), "arr": g.arrayName()}
	case k < 88:
		return node{"k": "idx", "arr": g.arrayName(), "e": g.expr(d - 1)}
	case k < 89:
		return node{"k": "group", "e": g.expr(d - 1)}
	case k < 90:
		return node{"k": "match", "neg": g.r.Intn(3) == 0, "e": g.expr(d - 1), "re": reMenu[g.r.Intn(len(reMenu))]}
	case k < 91:
		switch g.r.Intn(3) {
		case 0:
			return node{"k": "re0", "re": reMenu[g.r.Intn(len(reMenu))]}
		case 1:
			return node{"k": "subst", "global": g.r.Intn(2) == 0, "re": reMenu[g.r.Intn(4)],
				"repl": str([]string{"x", "[&]", "", "\\&"}[g.r.Intn(4)]), "lv": g.lvalue(1)}
		default:
			return node{"k": "bi", "f": "sprintf", "args": []any{str([]string{"%d-%s", "%3d|%-3s|", "%s%%%d"}[g.r.Intn(3)]), g.expr(d - 1), g.expr(d - 1)}}
		}
	case k < 94:
		switch g.r.Intn(3) {
		case 0:
			return node{"k": "bi", "f": "length", "args": []any{g.expr(d - 1)}}
		case 1:
			return node{"k": "bi", "f": "alength", "args": []any{vr(g.arrayName())}}
		default:
			return node{"k": "bi", "f": "int", "args": []any{g.expr(d - 1)}}
		}
	case k < 96:
		return node{"k": "bi", "f": "substr", "args": []any{g.expr(d - 1), num(1 + g.r.Intn(3)), num(g.r.Intn(4))}}
	default:
		// user calls: f(scalar, scalar) from anywhere but f; g(array, scalar) from the main program only
		if g.inFunc == "" && g.r.Intn(2) == 0 {
			return node{"k": "call", "f": "g", "args": []any{vr(arrays[g.r.Intn(2)]), g.expr(d - 1)}}
		}
		if g.inFunc != "f" {
			args := []any{}
			for i := g.r.Intn(3); i > 0; i-- {
				args = append(args, g.expr(d-1))
			}
			return node{"k": "call", "f": "f", "args": args}
		}
		return g.expr(0)
	}
}

func (g *gen) block(d, n int) []any {
	out := []any{}
	for i := 0; i < n; i++ {
		out = append(out, g.stmt(d))
	}
	return out
}

func (g *gen) stmt(d int) node {
	k := g.r.Intn(100)
	if d <= 0 && k >= 50 {
		k = k % 50
	}
	switch {
	case k < 22:
		args := []any{}
		for i := 1 + g.r.Intn(3); i > 0; i-- {
			args = append(args, g.expr(2))
		}
		return node{"k": "print", "args": args}
	case k < 42:
		// statement-position assignment forms (the compiler's shortcuts)
		switch g.r.Intn(3) {
		case 0:
			return node{"k": "expr", "e": node{"k": "assign", "lv": g.lvalue(2), "e": g.expr(2)}}
		case 1:
			return node{"k": "expr", "e": node{"k": "aug", "op": []string{"+", "-", "*", "%"}[g.r.Intn(4)], "lv": g.lvalue(2), "e": g.expr(1)}}
		default:
			return node{"k": "expr", "e": node{"k": "incr", "op": []string{"++", "--"}[g.r.Intn(2)], "pre": g.r.Intn(2) == 0, "lv": g.lvalue(2)}}
		}
	case k < 44:
		return node{"k": "expr", "e": g.expr(2)}
	case k < 46:
		return node{"k": "printf", "args": []any{str([]string{"%d:%s\n", "[%4d][%-4s]\n", "%s%s\n"}[g.r.Intn(3)]), g.expr(2), g.expr(2)}}
	case k < 50:
		if g.r.Intn(2) == 0 {
			return node{"k": "delete", "arr": g.arrayName(), "e": g.expr(1)}
		}
		return node{"k": "expr", "e": node{"k": "bi", "f": "split", "args": []any{str([]string{"a b c", "1 2", "x"}[g.r.Intn(3)]), vr(g.arrayName())}}}
	case k < 62:
		f := []any{}
		if g.r.Intn(2) == 0 {
			f = g.block(d-1, 1+g.r.Intn(2))
		}
		return node{"k": "if", "c": g.expr(2), "t": g.block(d-1, 1+g.r.Intn(2)), "f": f}
	case k < 86:
		g.loopN++
		lv := fmt.Sprintf("l%d", g.loopN)
		bound := num(1 + g.r.Intn(3))
		g.inLoop++
		body := g.block(d-1, 1+g.r.Intn(3))
		g.inLoop--
		incr := node{"k": "expr", "e": node{"k": "incr", "op": "++", "pre": false, "lv": vr(lv)}}
		init := node{"k": "expr", "e": node{"k": "assign", "lv": vr(lv), "e": num(0)}}
		cond := node{"k": "bin", "op": "<", "l": vr(lv), "r": bound}
		switch g.r.Intn(3) {
		case 0:
			return node{"k": "block", "b": []any{init, node{"k": "while", "c": cond, "b": append([]any{incr}, body...)}}}
		case 1:
			return node{"k": "block", "b": []any{init, node{"k": "do", "b": append([]any{incr}, body...), "c": cond}}}
		default:
			return node{"k": "for", "pre": init, "c": cond, "post": incr, "b": body}
		}
	case k < 90:
		// for-in: the body only counts, so the iteration order is not observable
		g.loopN++
		kv := fmt.Sprintf("k%d", g.loopN)
		body := []any{node{"k": "expr", "e": node{"k": "incr", "op": "++", "pre": false, "lv": vr("n")}}}
		if g.r.Intn(3) == 0 {
			body = append(body, node{"k": "if", "c": node{"k": "bin", "op": ">", "l": vr("n"), "r": num(g.r.Intn(5))}, "t": []any{node{"k": "break"}}, "f": []any{}})
		}
		return node{"k": "forin", "v": kv, "arr": g.arrayName(), "b": body}
	case k < 94:
		if g.inLoop > 0 {
			jm := []string{"break", "continue"}[g.r.Intn(2)]
			return node{"k": "if", "c": g.expr(1), "t": []any{node{"k": jm}}, "f": []any{}}
		}
		return g.stmt(0)
	case k < 96:
		if g.inRule && g.inFunc == "" {
			return node{"k": "if", "c": g.expr(1), "t": []any{node{"k": "next"}}, "f": []any{}}
		}
		return g.stmt(0)
	case k < 98:
		if g.inFunc != "" {
			return node{"k": "if", "c": g.expr(1), "t": []any{node{"k": "return", "e": g.expr(1)}}, "f": []any{}}
		}
		return g.stmt(0)
	default:
		e := none()
		if g.r.Intn(2) == 0 {
			e = num(g.r.Intn(4))
		}
		return node{"k": "if", "c": g.expr(1), "t": []any{node{"k": "exit", "e": e}}, "f": []any{}}
	}
}

var inputMenu = [][]string{{}, {"10 a"}, {"5 ba", "7"}, {"ab", "", "0"}, {"1 2 3", "c,d 4"}}

func (g *gen) program() (node, []any, string) {
	shape := ""
	prog := node{"begin": []any{}, "rules": []any{}, "end": []any{}, "funcs": []any{}}
	// functions
	g.inFunc = "f"
	fbody := g.block(2, 1+g.r.Intn(3))
	fbody = append(fbody, node{"k": "return", "e": g.expr(1)})
	g.inFunc = "g"
	gbody := g.block(2, 1+g.r.Intn(3))
	g.inFunc = ""
	prog["funcs"] = []any{
		node{"name": "f", "params": []any{node{"n": "p", "arr": false}, node{"n": "q", "arr": false}}, "body": fbody},
		node{"name": "g", "params": []any{node{"n": "A", "arr": true}, node{"n": "p", "arr": false}}, "body": gbody},
	}
	if g.r.Intn(4) != 0 {
		prog["begin"] = g.block(3, 1+g.r.Intn(4))
		shape += "B"
	}
	nr := g.r.Intn(3)
	rules := []any{}
	for i := 0; i < nr; i++ {
		pat := none()
		if g.r.Intn(2) == 0 {
			pat = g.expr(2)
		}
		g.inRule = true
		body := g.block(2, 1+g.r.Intn(3))
		g.inRule = false
		rules = append(rules, node{"pat": pat, "body": body, "nobody": false})
		shape += "R"
	}
	prog["rules"] = rules
	if g.r.Intn(3) == 0 || shape == "" {
		prog["end"] = g.block(2, 1+g.r.Intn(3))
		shape += "E"
	}
	in := inputMenu[g.r.Intn(len(inputMenu))]
	input := []any{}
	for _, l := range in {
		input = append(input, bs(l))
	}
	return prog, input, shape
}

// Record writes n random programs with the outcome observed on the real
// interpreter, as events for Trace_AwkSem.tla.
func Record(seed int64, n int, out string) (int, error) {
	r := rand.New(rand.NewSource(seed))
	f, err := os.Create(out)
	if err != nil {
		return 0, err
	}
	defer f.Close()
	w := bufio.NewWriter(f)
	defer w.Flush()
	written := 0
	for t := 0; t < n; t++ {
		g := &gen{r: r}
		prog, input, shape := g.program()
		raw, _ := json.Marshal(prog)
		var generic awkast.Node
		json.Unmarshal(raw, &generic)
		src := awkast.Program(generic)
		var inAny any
		rawIn, _ := json.Marshal(input)
		json.Unmarshal(rawIn, &inAny)
		res := hx.RunAwk(src, awkast.Input(inAny), nil, nil)
		if res.ParseErr != nil {
			return written, fmt.Errorf("generated program rejected by the parser: %v\n%s", res.ParseErr, src)
		}
		obs := map[string]any{"out": hx.FromBytes(res.Stdout), "status": res.Status, "err": res.Err != nil}
		if res.Panic != nil {
			obs["panic"] = fmt.Sprint(res.Panic)
			obs["err"] = true
		}
		if res.TimedOut {
			continue
		}
		for _, ev := range []any{
			map[string]any{"ev": "reset"},
			map[string]any{"ev": "step", "shape": shape, "prog": prog, "input": input, "obs": obs, "src": src},
		} {
			b, _ := json.Marshal(ev)
			w.Write(b)
			w.WriteByte('\n')
		}
		written++
	}
	return written, nil
}
