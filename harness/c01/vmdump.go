package c01

import (
	"bufio"
	"encoding/json"
	"flag"
	"fmt"
	"math"
	"os"
	"strings"

	"github.com/benhoyt/goawk/internal/ast"
	"github.com/benhoyt/goawk/internal/compiler"
	"github.com/benhoyt/goawk/internal/resolver"
	"github.com/benhoyt/goawk/lexer"
	"github.com/benhoyt/goawk/parser"
	"github.com/benhoyt/goawk/verifharness/awkast"
	"github.com/benhoyt/goawk/verifharness/hx"
)

// Dump of the REAL compiled form of a program for spec/VM.tla: the byte code
// of every block, constant tables, name tables, and for every regular
// expression the tree the specification's Regex module understands (taken
// from the syntax tree the program was rendered from).

type vmFunc struct {
	Name         string   `json:"name"`
	ScalarParams []string `json:"scalarParams"`
	ArrayParams  []string `json:"arrayParams"`
	Code         []int    `json:"code"`
}

type vmAction struct {
	Pattern [][]int `json:"pattern"`
	Body    []int   `json:"body"`
	Nobody  bool    `json:"nobody"`
}

type vmProg struct {
	Begin        []int             `json:"begin"`
	Actions      []vmAction        `json:"actions"`
	End          []int             `json:"end"`
	Funcs        []vmFunc          `json:"funcs"`
	Nums         []int             `json:"nums"`
	Strs         []hx.BS           `json:"strs"`
	Regexes      []any             `json:"regexes"`
	StrRegex     []any             `json:"strRegex"`
	ScalarNames  []string          `json:"scalarNames"`
	ArrayNames   []string          `json:"arrayNames"`
	SpecialNames map[string]string `json:"specialNames"`
	OpNames      map[string]string `json:"opnames"`
	Illegal      int               `json:"illegal"`
	Less         int               `json:"less"`
	ScopeGlobal  int               `json:"scopeGlobal"`
	ScopeLocal   int               `json:"scopeLocal"`
	ScopeSpecial int               `json:"scopeSpecial"`
}

func codeInts(code []compiler.Opcode) []int {
	out := make([]int, len(code))
	for i, c := range code {
		out[i] = int(c)
	}
	return out
}

// collectRegexes walks a syntax tree (JSON) and returns rendered source -> tree
func collectRegexes(v any, out map[string]any) {
	switch t := v.(type) {
	case map[string]any:
		if re, ok := t["re"].(map[string]any); ok {
			out[awkast.RegexSrc(re)] = re
		}
		for _, x := range t {
			collectRegexes(x, out)
		}
	case []any:
		for _, x := range t {
			collectRegexes(x, out)
		}
	}
}

var noneNode = map[string]any{"k": "none"}

// BuildVMProg returns nil, reason when the program uses something VM.tla does not model.
func BuildVMProg(prog *parser.Program, tree any) (*vmProg, string) {
	c := prog.Compiled
	res := map[string]any{}
	collectRegexes(tree, res)
	vp := &vmProg{Actions: []vmAction{}, Funcs: []vmFunc{}, Nums: []int{}, Strs: []hx.BS{}, Regexes: []any{}, StrRegex: []any{},
		SpecialNames: map[string]string{}, OpNames: map[string]string{}, Illegal: int(lexer.ILLEGAL), Less: int(lexer.LESS),
		ScopeGlobal: int(resolver.Global), ScopeLocal: int(resolver.Local), ScopeSpecial: int(resolver.Special),
		Begin: codeInts(c.Begin), End: codeInts(c.End)}
	for op := compiler.Nop; op < compiler.EndOpcode; op++ {
		vp.OpNames[fmt.Sprint(int(op))] = op.String()
	}
	for i := 1; i <= ast.V_LAST; i++ {
		vp.SpecialNames[fmt.Sprint(i)] = ast.SpecialVarName(i)
	}
	for _, n := range c.Nums {
		if n != math.Trunc(n) || math.Abs(n) > 30000 {
			return nil, "non-integer or large numeric constant"
		}
		vp.Nums = append(vp.Nums, int(n))
	}
	for _, s := range c.Strs {
		vp.Strs = append(vp.Strs, hx.FromBytes([]byte(s)))
		if re, ok := res[s]; ok {
			vp.StrRegex = append(vp.StrRegex, re)
		} else {
			vp.StrRegex = append(vp.StrRegex, noneNode)
		}
	}
	for _, re := range c.Regexes {
		src := strings.TrimSuffix(strings.TrimPrefix(re.String(), "(?s:"), ")")
		tr, ok := res[src]
		if !ok {
			return nil, "regular expression without a tree: " + src
		}
		vp.Regexes = append(vp.Regexes, tr)
	}
	nScalars, nArrays := 0, 0
	scal, arr := map[int]string{}, map[int]string{}
	prog.IterVars("", func(name string, info resolver.VarInfo) {
		if info.Type == resolver.Array {
			arr[info.Index] = name
			if info.Index+1 > nArrays {
				nArrays = info.Index + 1
			}
		} else {
			scal[info.Index] = name
			if info.Index+1 > nScalars {
				nScalars = info.Index + 1
			}
		}
	})
	for i := 0; i < nScalars; i++ {
		vp.ScalarNames = append(vp.ScalarNames, scal[i])
	}
	for i := 0; i < nArrays; i++ {
		vp.ArrayNames = append(vp.ArrayNames, arr[i])
	}
	if vp.ScalarNames == nil {
		vp.ScalarNames = []string{}
	}
	if vp.ArrayNames == nil {
		vp.ArrayNames = []string{}
	}
	for ai, a := range c.Actions {
		va := vmAction{Pattern: [][]int{}, Body: codeInts(a.Body)}
		for _, p := range a.Pattern {
			va.Pattern = append(va.Pattern, codeInts(p))
		}
		va.Nobody = prog.Actions[ai].Stmts == nil
		vp.Actions = append(vp.Actions, va)
	}
	for _, f := range c.Functions {
		vf := vmFunc{Name: f.Name, ScalarParams: []string{}, ArrayParams: []string{}, Code: codeInts(f.Body)}
		for i, p := range f.Params {
			if f.Arrays[i] {
				vf.ArrayParams = append(vf.ArrayParams, p)
			} else {
				vf.ScalarParams = append(vf.ScalarParams, p)
			}
		}
		vp.Funcs = append(vp.Funcs, vf)
	}
	return vp, ""
}

// VMDumpMode:  vreplay C01 vmdump -in cases.ndjson[,trace.ndjson] -out vmcases.ndjson [-limit N]
// For every program (and equivalent spelling) of the input files it writes one
// event with the real compiled code, the input environment and the outcome the
// reference semantics predicted (Gen_AwkSem cases) or the real run produced
// (recorded traces), for MC_VM.tla.
func VMDumpMode(args []string) int {
	fs := flag.NewFlagSet("vmdump", flag.ExitOnError)
	in := fs.String("in", "", "comma separated input files")
	out := fs.String("out", "vmcases.ndjson", "")
	limit := fs.Int("limit", 0, "max programs")
	stride := fs.Int("stride", 1, "take every n-th case")
	fs.Parse(args)
	of, err := os.Create(*out)
	if err != nil {
		fmt.Fprintln(os.Stderr, err)
		return 2
	}
	defer of.Close()
	w := bufio.NewWriter(of)
	defer w.Flush()
	written, skipped := 0, 0
	reasons := map[string]int{}
	seen := map[string]bool{}
	emit := func(name string, tree json.RawMessage, env map[string]any, expect any) {
		if *limit > 0 && written >= *limit {
			return
		}
		node, err := awkast.Decode(tree)
		if err != nil || node == nil {
			return
		}
		var src string
		ok := true
		func() {
			defer func() {
				if r := recover(); r != nil {
					ok = false
				}
			}()
			src = awkast.Program(node)
		}()
		if !ok || seen[src+fmt.Sprint(env)] {
			return
		}
		seen[src+fmt.Sprint(env)] = true
		prog, err := parser.ParseProgram([]byte(src), nil)
		if err != nil {
			return
		}
		var generic any
		json.Unmarshal(tree, &generic)
		vp, why := BuildVMProg(prog, generic)
		if vp == nil {
			skipped++
			reasons[why]++
			return
		}
		b, _ := json.Marshal(map[string]any{"ev": "step", "name": name, "cp": vp, "env": env, "expect": expect, "src": src})
		w.WriteString("{\"ev\":\"reset\"}\n")
		w.Write(b)
		w.WriteByte('\n')
		written++
	}
	for _, path := range strings.Split(*in, ",") {
		f, err := os.Open(path)
		if err != nil {
			fmt.Fprintln(os.Stderr, err)
			return 2
		}
		sc := bufio.NewScanner(f)
		sc.Buffer(make([]byte, 1<<20), 1<<28)
		n := 0
		for sc.Scan() {
			var c struct {
				Ev     string            `json:"ev"`
				Mech   string            `json:"mech"`
				Shape  string            `json:"shape"`
				Prog   json.RawMessage   `json:"prog"`
				Vars   []json.RawMessage `json:"variants"`
				Input  json.RawMessage   `json:"input"`
				Env    map[string]any    `json:"env"`
				Expect any               `json:"expect"`
				Obs    any               `json:"obs"`
			}
			if json.Unmarshal(sc.Bytes(), &c) != nil || len(c.Prog) == 0 {
				continue
			}
			n++
			if *stride > 1 && n%*stride != 0 {
				continue
			}
			env := c.Env
			if env == nil {
				var inp any
				json.Unmarshal(c.Input, &inp)
				if inp == nil {
					inp = []any{}
				}
				env = map[string]any{"stdin": inp, "files": []any{}, "args": []any{}}
			}
			exp := c.Expect
			name := c.Mech
			if c.Ev == "step" { // a recorded trace event: the expectation is what the real run did
				exp = c.Obs
				name = "recorded/" + c.Shape
			}
			emit(name, c.Prog, env, exp)
			for i, v := range c.Vars {
				emit(fmt.Sprintf("%s#%d", name, i+1), v, env, exp)
			}
		}
		f.Close()
	}
	fmt.Printf("vmdump: %d compiled programs written, %d skipped %v\n", written, skipped, reasons)
	return 0
}
