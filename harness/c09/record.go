package c09

import (
	"bufio"
	"bytes"
	"encoding/json"
	"fmt"
	"math/rand"
	"os"
	"strings"

	"github.com/benhoyt/goawk/interp"
	"github.com/benhoyt/goawk/verifharness/c05"
	"github.com/benhoyt/goawk/verifharness/hx"
)

// The code -> spec direction of C09.  One trace is ONE run of the real
// interpreter making many sprintf calls, drawn from a small pool of formats so
// that the memoised format translation (interp.formatCache) is hit with
// different argument kinds (numbers, string constants, text read from input in
// the provenance drawn for the trace, unset variables), and, in some traces,
// with more distinct formats than the cache holds.  Between the calls the
// program prints lines with `print` in the output mode drawn for the trace
// (default, CSV, TSV; selected by Config.OutputMode or by OUTPUTMODE) while
// OFMT and CONVFMT change.  Every call and every print is recorded with its
// result; Trace_Printf lets TLC check each against Printf.tla, so a translation
// that is right for a fresh interpreter but wrong when served from the cache,
// or a print that takes the wrong format in some mode, shows up.

type call struct {
	fmt  []byte
	args []c05.ValJ
	// a print statement instead of a sprintf call
	print       bool
	of, cf, ofs []byte
	set         string // assignments made just before the print (OFMT / CONVFMT / OFS)
}

var inputPool = []string{"65", " 42 ", "6.5e1", "-3.7", "0x1f", "12abc", "abc", "", "+7", ".5", "1e", "\xc3\xa9t", "3.0", "0.10"}
var ofmtPool = []string{"%.6g", "%.2f", "%.3e", "%g", "%G", "%8.1f", "%.2f,", "%.10g", "%.0f", "%5.3g|", "%+.1e"}
var convfmtPool = []string{"%.6g", "%.3e", "%.1f", "%.12g"}
var printStrPool = []string{"", "a", "hello world", "a,b", " lead", "q\"q", "x\xc3\xa9", "12abc", "1e3"}

func inputArg(r *rand.Rand) c05.ValJ {
	return c05.ValJ{Tag: "strnum", S: hx.FromBytes([]byte(inputPool[r.Intn(len(inputPool))])), N: c05.NumJ{T: "fin", D: []int{}}}
}

// randPrint: one print statement; cur holds the OFMT / CONVFMT / OFS in force.
func randPrint(r *rand.Rand, cur *call) call {
	c := call{print: true}
	if r.Intn(3) == 0 {
		cur.of = []byte(ofmtPool[r.Intn(len(ofmtPool))])
		c.set += "  OFMT = " + hx.AwkString(cur.of) + "\n"
	}
	if r.Intn(4) == 0 {
		cur.cf = []byte(convfmtPool[r.Intn(len(convfmtPool))])
		c.set += "  CONVFMT = " + hx.AwkString(cur.cf) + "\n"
	}
	if r.Intn(8) == 0 {
		cur.ofs = []byte([]string{" ", "-", ", "}[r.Intn(3)])
		c.set += "  OFS = " + hx.AwkString(cur.ofs) + "\n"
	}
	c.of, c.cf, c.ofs = cur.of, cur.cf, cur.ofs
	for n := 1 + r.Intn(3); n > 0; n-- {
		switch r.Intn(8) {
		case 0:
			c.args = append(c.args, c05.ValJ{Tag: "str", S: hx.FromBytes([]byte(printStrPool[r.Intn(len(printStrPool))])), N: c05.NumJ{T: "fin", D: []int{}}})
		case 1:
			c.args = append(c.args, inputArg(r))
		case 2:
			c.args = append(c.args, c05.ValJ{Tag: "null", S: hx.BS{}, N: c05.NumJ{T: "fin", D: []int{}}})
		default:
			c.args = append(c.args, c05.ValJ{Tag: "num", S: hx.BS{}, N: randNum(r)})
		}
	}
	return c
}

func randNum(r *rand.Rand) c05.NumJ {
	digs := func(n int) []int {
		d := make([]int, n)
		for i := range d {
			d[i] = r.Intn(10)
		}
		if d[0] == 0 {
			d[0] = 1 + r.Intn(9)
		}
		if d[n-1] == 0 {
			d[n-1] = 1 + r.Intn(9)
		}
		return d
	}
	n := c05.NumJ{T: "fin", D: []int{}}
	switch r.Intn(10) {
	case 0:
		return n // zero
	case 1, 2, 3:
		n.D = digs(1 + r.Intn(3))
	case 4:
		n.D = digs(4 + r.Intn(6))
	case 5, 6, 7:
		n.D = digs(1 + r.Intn(6))
		n.X = -(1 + r.Intn(5))
	case 8:
		n.D = digs(1 + r.Intn(3))
		n.X = 1 + r.Intn(12)
	case 9:
		n.D = [][]int{{5}, {2, 5}, {1, 2, 5}, {7, 5}, {1, 5}, {3, 7, 5}}[r.Intn(6)]
		n.X = -[]int{1, 2, 3, 2, 1, 3}[r.Intn(6)]
	}
	n.Neg = r.Intn(4) == 0
	return n
}

var strPool = []string{"", "a", "abc", "hello world", "12abc", "-3.5e2x", " 42 ", "\xc3\xa9t\xc3\xa9", "x\xc3\xa9", "A", "%d", "0x1f"}

func randArg(r *rand.Rand, verb byte) c05.ValJ {
	if r.Intn(4) == 0 {
		return inputArg(r)
	}
	wantStr := r.Intn(5) == 0
	if verb == 's' {
		wantStr = r.Intn(3) != 0
	}
	if verb == 'c' {
		if r.Intn(2) == 0 {
			return c05.ValJ{Tag: "num", S: hx.BS{}, N: c05.NumJ{T: "fin", D: []int{[]int{3, 6, 9, 1}[r.Intn(4)], r.Intn(10)}}} // 30..99, 10..19 -> printable mostly
		}
		wantStr = true
	}
	if wantStr {
		s := strPool[r.Intn(len(strPool))]
		if verb == 'c' && s == "" {
			s = "q"
		}
		return c05.ValJ{Tag: "str", S: hx.FromBytes([]byte(s)), N: c05.NumJ{T: "fin", D: []int{}}}
	}
	return c05.ValJ{Tag: "num", S: hx.BS{}, N: randNum(r)}
}

func small(v int) c05.ValJ {
	n := c05.NumJ{T: "fin", D: []int{}, Neg: v < 0}
	if v < 0 {
		v = -v
	}
	for _, ch := range fmt.Sprint(v) {
		n.D = append(n.D, int(ch-'0'))
	}
	if v == 0 {
		n.D = []int{}
	}
	// normalise trailing zeros
	for len(n.D) > 0 && n.D[len(n.D)-1] == 0 {
		n.D = n.D[:len(n.D)-1]
		n.X++
	}
	return c05.ValJ{Tag: "num", S: hx.BS{}, N: n}
}

// randFormat: literal text, one directive, literal text.
func randFormat(r *rand.Rand) (f []byte, verb byte, nstar int, stars []int) {
	lit := func() string {
		return []string{"", "", "a", "x=", " : ", "%%", "b%%", "<"}[r.Intn(8)]
	}
	var sb strings.Builder
	sb.WriteString(lit())
	sb.WriteByte('%')
	for _, fl := range "-+ #0" {
		if r.Intn(4) == 0 {
			sb.WriteRune(fl)
		}
	}
	switch r.Intn(5) {
	case 0, 1:
	case 2, 3:
		fmt.Fprintf(&sb, "%d", 1+r.Intn(14))
	case 4:
		sb.WriteByte('*')
		stars = append(stars, r.Intn(21)-8)
	}
	verb = "diouxXcseEfgG"[r.Intn(13)]
	if verb != 'c' {
		switch r.Intn(6) {
		case 0, 1, 2:
		case 3:
			sb.WriteByte('.')
		case 4:
			fmt.Fprintf(&sb, ".%d", r.Intn(9))
		case 5:
			sb.WriteString(".*")
			stars = append(stars, r.Intn(11)-2)
		}
	}
	sb.WriteByte(verb)
	sb.WriteString(lit())
	return []byte(sb.String()), verb, len(stars), stars
}

type poolItem struct {
	f     []byte
	verb  byte
	stars int
}

func Record(seed int64, n int, out string) (int, error) {
	r := rand.New(rand.NewSource(seed))
	fo, err := os.Create(out)
	if err != nil {
		return 0, err
	}
	defer fo.Close()
	w := bufio.NewWriter(fo)
	defer w.Flush()
	emit := func(v any) {
		b, _ := json.Marshal(v)
		w.Write(b)
		w.WriteByte('\n')
	}
	count := 0
	for t := 0; t < n; t++ {
		chars := r.Intn(3) == 0
		npool, ncalls := 3+r.Intn(4), 12+r.Intn(14)
		if t%10 == 9 { // more distinct formats than the cache holds
			npool, ncalls = 130, 150
		}
		var pool []poolItem
		for len(pool) < npool {
			f, verb, ns, _ := randFormat(r)
			pool = append(pool, poolItem{f, verb, ns})
			// the sibling the translation maps to the same Go verb (c/s, i/d, u/d): identical text but for
			// the conversion letter, so that a cache confusing the two is noticed
			if sib, ok := map[byte]byte{'c': 's', 's': 'c', 'i': 'd', 'd': 'u', 'u': 'i'}[verb]; ok && r.Intn(2) == 0 {
				if i := bytes.LastIndexByte(f, verb); i >= 0 && !(sib == 'c' && bytes.IndexByte(f, '.') >= 0) {
					g := append([]byte{}, f...)
					g[i] = sib
					pool = append(pool, poolItem{g, sib, ns})
				}
			}
		}
		var calls []call
		mode := []string{"default", "default", "csv", "tsv"}[r.Intn(4)]
		setter := []string{"config", "var"}[r.Intn(2)]
		prov := provenances[r.Intn(len(provenances))]
		cur := &call{of: []byte("%.6g"), cf: []byte("%.6g"), ofs: []byte(" ")}
		for i := 0; i < ncalls; i++ {
			if npool < 100 && i < ncalls-1 && r.Intn(4) == 0 {
				calls = append(calls, randPrint(r, cur))
				continue
			}
			it := pool[r.Intn(len(pool))]
			if npool > 100 && i < npool {
				it = pool[i]
			}
			var args []c05.ValJ
			// star arguments: regenerate values for this call
			for k := 0; k < it.stars; k++ {
				args = append(args, small(r.Intn(17)-4))
			}
			args = append(args, randArg(r, it.verb))
			if i == ncalls-1 && r.Intn(4) == 0 {
				args = args[:len(args)-1] // too few arguments: a run-time error ends the run (last call only)
			}
			calls = append(calls, call{fmt: it.f, args: args, cf: cur.cf})
		}
		b := &binding{prov: prov}
		cfg := &interp.Config{Chars: chars}
		var sb strings.Builder
		if mode != "default" {
			if setter == "var" {
				fmt.Fprintf(&sb, "  OUTPUTMODE = %q\n", mode)
			} else if mode == "csv" {
				cfg.OutputMode = interp.CSVMode
			} else {
				cfg.OutputMode = interp.TSVMode
			}
		}
		for _, c := range calls {
			if c.print {
				sb.WriteString(c.set)
				sb.WriteString("  print " + strings.Join(b.add(c.args), ", ") + "\n  printf \"\\001\"\n")
				continue
			}
			sb.WriteString("  printf \"%s\\001\", sprintf(" + hx.AwkString(c.fmt) + callArgs(b.add(c.args)) + ")\n")
		}
		src, stdin, vars := b.program(sb.String())
		cfg.Vars = vars
		res := hx.RunAwk(src, stdin, cfg, nil)
		if res.Panic != nil || res.ParseErr != nil {
			return count, fmt.Errorf("trace program failed: panic=%v parse=%v\n%s", res.Panic, res.ParseErr, src)
		}
		outs := bytes.Split(res.Stdout, []byte{1})
		outs = outs[:len(outs)-1]
		emit(map[string]any{"ev": "reset"})
		for i, c := range calls {
			// cf: the CONVFMT in force (a print statement before the call may have changed it; %s of a number uses it)
			ev := map[string]any{"ev": "step", "fmt": hx.FromBytes(c.fmt), "args": c.args, "chars": chars, "cf": hx.FromBytes(c.cf), "k": i + 1}
			if c.print {
				ev = map[string]any{"ev": "print", "args": c.args, "of": hx.FromBytes(c.of), "cf": hx.FromBytes(c.cf), "mode": mode,
					"ofs": hx.FromBytes(c.ofs), "k": i + 1}
			}
			if c.args == nil {
				ev["args"] = []c05.ValJ{}
			}
			if i < len(outs) {
				ev["err"] = false
				ev["out"] = hx.FromBytes(outs[i])
				emit(ev)
				continue
			}
			if res.Err == nil {
				return count, fmt.Errorf("trace program printed %d results for %d calls without an error", len(outs), len(calls))
			}
			ev["err"] = true
			ev["out"] = hx.BS{}
			emit(ev)
			break
		}
		count++
	}
	return count, nil
}
