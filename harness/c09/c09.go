// Package c09 binds spec/Printf.tla to the real printf / sprintf / print.
// Cases exported by TLC from Gen_Printf carry the format text, the arguments
// and the bytes (or the error) the specification predicts; Replay runs
// `printf FMT, args` and `sprintf(FMT, args)` on the real interpreter and
// compares bytes and error/no-error.  Gate (mode "gate") feeds the single
// directive cases to the C library through cgate.c and compares THE
// SPECIFICATION's prediction with it: a sanity check of the model, not a verdict.
//
// The KIND of an argument is part of a case: "num" and "str" are rendered as
// constants, "null" as an unset variable, "strnum" (text from input) is really
// read from input, once in every provenance (getline variable, field,
// split() element, Config.Vars variable): see kinds.go.  Families "q" (several
// calls in one interpreter), "p" (print lines in the default, CSV and TSV
// output modes under OFMT / CONVFMT texts) and "v" (%s of a number under a
// CONVFMT text) are replayed there as well.
package c09

import (
	"bufio"
	"bytes"
	_ "embed"
	"encoding/hex"
	"encoding/json"
	"flag"
	"fmt"
	"os"
	"os/exec"
	"strings"

	"github.com/benhoyt/goawk/verifharness/c05"
	"github.com/benhoyt/goawk/verifharness/hx"
)

//go:embed cgate_c.txt
var CGateSource string

type Case struct {
	Fam   string     `json:"fam"`
	Fmt   hx.BS      `json:"fmt"`
	Args  []c05.ValJ `json:"args"`
	Chars bool       `json:"chars"`
	Verb  int        `json:"verb"`
	Flags hx.BS      `json:"flags"`
	Wk    string     `json:"wk"`
	Pk    string     `json:"pk"`
	Ub    bool       `json:"ub"`
	Cn    c05.NumJ   `json:"cn"`
	Cs    hx.BS      `json:"cs"`
	Err   bool       `json:"err"`
	Out   hx.BS      `json:"out"`
	// fam k (and d): is the argument a number for %c ("yes" / "no" / "open"); the results of the other
	// dialects when the argument is an open form (hex, inf/nan, NBSP blanks)
	Isnum string `json:"isnum"`
	Alts  []Alt  `json:"alts"`
	// fam q: a sequence of calls in one interpreter (exported by Gen_Printf, or from a rejected recorded trace)
	Calls []Case `json:"calls"`
	// fam p (print line) and v (%s under CONVFMT)
	N        c05.NumJ `json:"n"`
	Of       hx.BS    `json:"of"`
	Cf       hx.BS    `json:"cf"`
	Mode     string   `json:"mode"`
	Ofs      hx.BS    `json:"ofs"`
	Fraction bool     `json:"fraction"`
	Defprec  bool     `json:"defprec"`
}

// Alt is the result of a format under another dialect of the value model.
type Alt struct {
	Err bool  `json:"err"`
	Out hx.BS `json:"out"`
}

func argExpr(v *c05.ValJ) string {
	switch v.Tag {
	case "num":
		return v.N.Expr()
	case "str":
		return hx.AwkString(v.S.Bytes())
	}
	return "un"
}

func verbClass(v int) string {
	switch byte(v) {
	case 'd', 'i':
		return "d"
	case 'u':
		return "u"
	case 'o':
		return "o"
	case 'x', 'X':
		return "x"
	case 'e', 'E':
		return "e"
	case 'f':
		return "f"
	case 'g', 'G':
		return "g"
	case 's':
		return "s"
	case 'c':
		return "c"
	}
	return "other"
}

func isMultibyte(b []byte) bool {
	for _, c := range b {
		if c >= 128 {
			return true
		}
	}
	return false
}

func argClass(c *Case) string {
	a := &c.Args[len(c.Args)-1]
	if a.Tag == "strnum" {
		return inputClass(c, a)
	}
	if a.Tag == "null" {
		return "uninitialised"
	}
	if a.Tag == "str" {
		switch {
		case len(a.S) == 0:
			return "empty-string"
		case isMultibyte(a.S.Bytes()):
			return "multibyte-string"
		}
		return "string"
	}
	n := a.N
	switch {
	case len(n.D) == 0:
		return "zero"
	case n.X < 0:
		if n.Neg {
			return "negative-fraction"
		}
		return "fraction"
	case len(n.D)+n.X > 9:
		if n.Neg {
			return "big-negative"
		}
		return "big"
	case n.Neg:
		return "negative"
	}
	return "positive"
}

// feature names the rarely used corner of C printf a single-directive case
// exercises (so that known deviations and new ones get different signatures).
func feature(c *Case) string {
	vc := verbClass(c.Verb)
	fl := string(c.Flags.Bytes())
	isInt := vc == "d" || vc == "u" || vc == "o" || vc == "x"
	// resolved precision: -1 none
	prec := -1
	switch c.Pk {
	case "empty":
		prec = 0
	case "n":
		f := c.Fmt.Bytes()
		if i := bytes.IndexByte(f, '.'); i >= 0 {
			prec = 0
			for _, ch := range f[i+1:] {
				if ch < '0' || ch > '9' {
					break
				}
				prec = prec*10 + int(ch-'0')
			}
		}
	case "star":
		prec = smallInt(c.Args[len(c.Args)-2].N)
	}
	// the first (in this fixed order) rarely used corner the directive is in
	switch {
	case c.Pk == "star" && prec < 0:
		return "negative-star-precision"
	case (vc == "s" || vc == "c") && strings.Contains(fl, "0") && c.Wk != "none" && !strings.Contains(fl, "-"):
		return "zero-flag"
	case (vc == "u" || vc == "o" || vc == "x") && strings.ContainsAny(fl, "+ "):
		return "sign-flag"
	case vc == "x" && strings.Contains(fl, "#") && len(c.Cn.D) == 0:
		return "alt-zero"
	case vc == "x" && strings.Contains(fl, "#") && strings.Contains(fl, "0") && !strings.Contains(fl, "-") && c.Wk != "none" && prec < 0:
		return "alt-zero-pad"
	case vc == "g" && c.Pk == "none":
		return "default-precision"
	case vc == "s" && !c.Chars && isMultibyte(c.Cs.Bytes()) && (c.Wk != "none" || c.Pk != "none"):
		return "multibyte-bytes-mode"
	case isInt && prec == 0 && len(c.Cn.D) == 0 && c.Cn.T == "fin":
		return "zero-precision-zero-value"
	}
	if a := &c.Args[len(c.Args)-1]; a.Tag == "strnum" || a.Tag == "null" {
		// the kind of the argument is what the case is about
		return "input-arg/" + argClass(c)
	}
	return "output/" + argClass(c)
}

func fmtKind(f []byte) string {
	s := string(f)
	switch {
	case strings.HasSuffix(s, "%") && !strings.HasSuffix(s, "%%"):
		return "dangling"
	case strings.ContainsAny(s, "zky"):
		return "unknown-verb"
	}
	return "args"
}

// Replay is the hx.Replayer for Gen_Printf exports.
func Replay(raw json.RawMessage) hx.Outcome {
	var c Case
	if err := json.Unmarshal(raw, &c); err != nil {
		return hx.Outcome{Skipped: true, Note: "bad case: " + err.Error()}
	}
	switch c.Fam {
	case "d", "k":
		if len(c.Args) == 0 {
			return hx.Outcome{Skipped: true, Note: "no arguments"}
		}
		return replayFmt(&c)
	case "m":
		return replayFmt(&c)
	case "p":
		return replayPrint(&c)
	case "v":
		return replayConvfmt(&c)
	case "q":
		return replaySeq(&c)
	}
	return hx.Outcome{Skipped: true, Note: "unknown family"}
}

// ---------------------------------------------------------------- C gate

func hexOrDash(b []byte) string {
	if len(b) == 0 {
		return "-"
	}
	return hex.EncodeToString(b)
}

func smallInt(n c05.NumJ) int {
	v := 0
	for _, d := range n.D {
		v = v*10 + d
	}
	for i := 0; i < n.X; i++ {
		v *= 10
	}
	if n.Neg {
		v = -v
	}
	return v
}

// gateLine renders a single-directive case as a cgate input line ("" if the
// case is not one the C library can be asked about).
func gateLine(c *Case) string {
	if (c.Fam != "d" && c.Fam != "k") || c.Err || len(c.Args) == 0 {
		return ""
	}
	f := c.Fmt.Bytes()
	f = f[1 : len(f)-1] // without the brackets
	nstar := len(c.Args) - 1
	s := [2]int{}
	for i := 0; i < nstar && i < 2; i++ {
		s[i] = smallInt(c.Args[i].N)
	}
	var typ byte
	var arg string
	cf := string(f)
	withLL := cf[:len(cf)-1] + "ll" + cf[len(cf)-1:]
	intText := func() string {
		t := "0"
		if len(c.Cn.D) > 0 {
			t = c.Cn.Literal()
			if c.Cn.X > 0 { // expand the exponent: strtoll reads digits only
				t = t[:strings.IndexByte(t, 'e')] + strings.Repeat("0", c.Cn.X)
			}
			if c.Cn.Neg {
				t = "-" + t
			}
		}
		return t
	}
	switch verbClass(c.Verb) {
	case "d":
		typ, arg, cf = 'i', intText(), withLL
	case "u", "o", "x":
		typ, arg, cf = 'u', intText(), withLL
	case "e", "f", "g":
		typ = 'f'
		arg = c.Cn.Literal()
		if c.Cn.Neg {
			arg = "-" + arg
		}
	case "s":
		if c.Chars && isMultibyte(c.Cs.Bytes()) {
			return ""
		}
		typ, arg = 's', hexOrDash(c.Cs.Bytes())
	case "c":
		a := &c.Args[len(c.Args)-1]
		if c.Isnum == "open" {
			return ""
		}
		if a.Tag == "num" || c.Isnum == "yes" {
			code := smallInt(c.Cn)
			if code < 0 || code > 255 || (c.Chars && code > 127) {
				return ""
			}
			typ, arg = 'c', fmt.Sprint(code)
		} else {
			b := a.S.Bytes()
			if len(b) == 0 || (c.Chars && b[0] > 127) {
				return ""
			}
			typ, arg = 'c', fmt.Sprint(int(b[0]))
		}
	default:
		return ""
	}
	return fmt.Sprintf("%c %s %d %d %d %s", typ, hex.EncodeToString([]byte(cf)), nstar, s[0], s[1], arg)
}

// Gate is the "gate" mode: vreplay C09 gate -in cases.ndjson -cgate ./cgate -out gate.json
func Gate(args []string) int {
	fs := flag.NewFlagSet("gate", flag.ExitOnError)
	in := fs.String("in", "", "cases")
	bin := fs.String("cgate", "", "compiled cgate.c")
	out := fs.String("out", "", "summary json")
	filtered := fs.String("filtered", "", "cases without the ones the C library disagrees on")
	fs.Parse(args)
	f, err := os.Open(*in)
	if err != nil {
		fmt.Fprintln(os.Stderr, err)
		return 2
	}
	defer f.Close()
	var cases []*Case
	var raws [][]byte   // all case lines
	var rawIdx []int    // index into raws of every gated case
	var input bytes.Buffer
	sc := bufio.NewScanner(f)
	sc.Buffer(make([]byte, 1<<20), 1<<28)
	total := 0
	for sc.Scan() {
		var c Case
		if json.Unmarshal(sc.Bytes(), &c) != nil {
			continue
		}
		total++
		raws = append(raws, append([]byte{}, sc.Bytes()...))
		if l := gateLine(&c); l != "" {
			cc := c
			cases = append(cases, &cc)
			rawIdx = append(rawIdx, len(raws)-1)
			input.WriteString(l)
			input.WriteByte('\n')
		}
	}
	cmd := exec.Command(*bin)
	cmd.Stdin = &input
	res, err := cmd.Output()
	if err != nil {
		fmt.Fprintln(os.Stderr, "cgate failed:", err)
		return 2
	}
	lines := strings.Split(strings.TrimRight(string(res), "\n"), "\n")
	if len(lines) != len(cases) {
		fmt.Fprintf(os.Stderr, "cgate answered %d lines for %d cases\n", len(lines), len(cases))
		return 2
	}
	type mism struct {
		Fmt  string `json:"fmt"`
		Arg  string `json:"arg"`
		Spec string `json:"spec"`
		C    string `json:"c"`
	}
	var bad []mism
	nbad, nquirk := 0, 0
	drop := map[int]bool{}
	for i, c := range cases {
		var got []byte
		if lines[i] != "-" {
			got, _ = hex.DecodeString(lines[i])
		}
		o := c.Out.Bytes()
		want := o[1 : len(o)-1]
		if lines[i] != "?" && !bytes.Equal(got, want) && verbClass(c.Verb) == "g" && bytes.IndexByte(c.Flags.Bytes(), '#') >= 0 &&
			(bytes.Contains(got, []byte(".e")) || bytes.Contains(got, []byte(".E"))) {
			// glibc drops the zeros of %#g when rounding carries into the next power of ten
			// (printf("%#G", 999999.5) gives 1.E+06; the C standard requires 1.00000E+06):
			// neither side is trusted, the case is not replayed
			nquirk++
			drop[rawIdx[i]] = true
			continue
		}
		if lines[i] == "?" || !bytes.Equal(got, want) {
			nbad++
			drop[rawIdx[i]] = true
			if len(bad) < 20 {
				bad = append(bad, mism{string(c.Fmt.Bytes()), gateLine(c), string(want), string(got)})
			}
		}
	}
	if *filtered != "" {
		var fb bytes.Buffer
		for i, r := range raws {
			if !drop[i] {
				fb.Write(r)
				fb.WriteByte('\n')
			}
		}
		if err := os.WriteFile(*filtered, fb.Bytes(), 0o644); err != nil {
			fmt.Fprintln(os.Stderr, err)
			return 2
		}
	}
	sum := map[string]any{"cases": total, "gated": len(cases), "mismatches": nbad, "glibc_quirk_skipped": nquirk, "first": bad}
	hx.WriteJSON(*out, sum)
	fmt.Printf("C gate: %d of %d cases compared with the C library, %d disagreement(s) between the specification and the C library, %d skipped for a known glibc quirk\n", len(cases), total, nbad, nquirk)
	return 0
}

// WriteCGate is the "cgate-source" mode: writes cgate.c to the given path.
func WriteCGate(args []string) int {
	if len(args) != 1 {
		return 2
	}
	if err := os.WriteFile(args[0], []byte(CGateSource), 0o644); err != nil {
		fmt.Fprintln(os.Stderr, err)
		return 2
	}
	return 0
}

