// Package c09 binds spec/Printf.tla to the real printf / sprintf / print.
// Cases exported by TLC from Gen_Printf carry the format text, the arguments
// and the bytes (or the error) the specification predicts; Replay runs
// `printf FMT, args` and `sprintf(FMT, args)` on the real interpreter and
// compares bytes and error/no-error.  Gate (mode "gate") feeds the single
// directive cases to the C library through cgate.c and compares THE
// SPECIFICATION's prediction with it: a sanity check of the model, not a verdict.
package c09

import (
	"bufio"
	"bytes"
	_ "embed"
	"encoding/hex"
	"encoding/json"
	"flag"
	"fmt"
	"os"
	"os/exec"
	"strings"

	"github.com/benhoyt/goawk/interp"
	"github.com/benhoyt/goawk/verifharness/c05"
	"github.com/benhoyt/goawk/verifharness/hx"
)

//go:embed cgate_c.txt
var CGateSource string

type Case struct {
	Fam   string     `json:"fam"`
	Fmt   hx.BS      `json:"fmt"`
	Args  []c05.ValJ `json:"args"`
	Chars bool       `json:"chars"`
	Verb  int        `json:"verb"`
	Flags hx.BS      `json:"flags"`
	Wk    string     `json:"wk"`
	Pk    string     `json:"pk"`
	Ub    bool       `json:"ub"`
	Cn    c05.NumJ   `json:"cn"`
	Cs    hx.BS      `json:"cs"`
	Err   bool       `json:"err"`
	Out   hx.BS      `json:"out"`
	// fam q: a sequence of calls in one interpreter (from a rejected recorded trace)
	Calls []Case `json:"calls"`
	// fam o
	N        c05.NumJ `json:"n"`
	Of       hx.BS    `json:"of"`
	Integral bool     `json:"integral"`
}

func argExpr(v *c05.ValJ) string {
	switch v.Tag {
	case "num":
		return v.N.Expr()
	case "str":
		return hx.AwkString(v.S.Bytes())
	}
	return "un"
}

func program(c *Case) string {
	f := hx.AwkString(c.Fmt.Bytes())
	var args strings.Builder
	for i := range c.Args {
		args.WriteString(", ")
		args.WriteString(argExpr(&c.Args[i]))
	}
	return fmt.Sprintf("BEGIN {\n  printf %s%s\n  printf \"\\001\"\n  x = sprintf(%s%s)\n  printf \"%%s\", x\n}\n", f, args.String(), f, args.String())
}

func verbClass(v int) string {
	switch byte(v) {
	case 'd', 'i':
		return "d"
	case 'u':
		return "u"
	case 'o':
		return "o"
	case 'x', 'X':
		return "x"
	case 'e', 'E':
		return "e"
	case 'f':
		return "f"
	case 'g', 'G':
		return "g"
	case 's':
		return "s"
	case 'c':
		return "c"
	}
	return "other"
}

func isMultibyte(b []byte) bool {
	for _, c := range b {
		if c >= 128 {
			return true
		}
	}
	return false
}

func argClass(c *Case) string {
	a := &c.Args[len(c.Args)-1]
	if a.Tag == "str" {
		switch {
		case len(a.S) == 0:
			return "empty-string"
		case isMultibyte(a.S.Bytes()):
			return "multibyte-string"
		}
		return "string"
	}
	n := a.N
	switch {
	case len(n.D) == 0:
		return "zero"
	case n.X < 0:
		if n.Neg {
			return "negative-fraction"
		}
		return "fraction"
	case len(n.D)+n.X > 9:
		if n.Neg {
			return "big-negative"
		}
		return "big"
	case n.Neg:
		return "negative"
	}
	return "positive"
}

// feature names the rarely used corner of C printf a single-directive case
// exercises (so that known deviations and new ones get different signatures).
func feature(c *Case) string {
	vc := verbClass(c.Verb)
	fl := string(c.Flags.Bytes())
	isInt := vc == "d" || vc == "u" || vc == "o" || vc == "x"
	// resolved precision: -1 none
	prec := -1
	switch c.Pk {
	case "empty":
		prec = 0
	case "n":
		f := c.Fmt.Bytes()
		if i := bytes.IndexByte(f, '.'); i >= 0 {
			prec = 0
			for _, ch := range f[i+1:] {
				if ch < '0' || ch > '9' {
					break
				}
				prec = prec*10 + int(ch-'0')
			}
		}
	case "star":
		prec = smallInt(c.Args[len(c.Args)-2].N)
	}
	// the first (in this fixed order) rarely used corner the directive is in
	switch {
	case c.Pk == "star" && prec < 0:
		return "negative-star-precision"
	case (vc == "s" || vc == "c") && strings.Contains(fl, "0") && c.Wk != "none" && !strings.Contains(fl, "-"):
		return "zero-flag"
	case (vc == "u" || vc == "o" || vc == "x") && strings.ContainsAny(fl, "+ "):
		return "sign-flag"
	case vc == "x" && strings.Contains(fl, "#") && len(c.Cn.D) == 0:
		return "alt-zero"
	case vc == "x" && strings.Contains(fl, "#") && strings.Contains(fl, "0") && !strings.Contains(fl, "-") && c.Wk != "none" && prec < 0:
		return "alt-zero-pad"
	case vc == "g" && c.Pk == "none":
		return "default-precision"
	case vc == "s" && !c.Chars && isMultibyte(c.Cs.Bytes()) && (c.Wk != "none" || c.Pk != "none"):
		return "multibyte-bytes-mode"
	case isInt && prec == 0 && len(c.Cn.D) == 0 && c.Cn.T == "fin":
		return "zero-precision-zero-value"
	}
	return "output/" + argClass(c)
}

func fmtKind(f []byte) string {
	s := string(f)
	switch {
	case strings.HasSuffix(s, "%") && !strings.HasSuffix(s, "%%"):
		return "dangling"
	case strings.ContainsAny(s, "zky"):
		return "unknown-verb"
	}
	return "args"
}

func run(c *Case) (*hx.RunResult, string) {
	prog := program(c)
	cfg := &interp.Config{Chars: c.Chars}
	return hx.RunAwk(prog, nil, cfg, nil), prog
}

func replayFmt(c *Case) hx.Outcome {
	res, prog := run(c)
	who := "multi"
	feat := "output"
	if c.Fam == "d" {
		who = verbClass(c.Verb)
		feat = feature(c)
	}
	if res.Panic != nil {
		return hx.Fail("C09/"+who+"/panic", fmt.Sprintf("panic: %v", res.Panic), nil, res.PanicStk, prog)
	}
	if res.ParseErr != nil {
		return hx.Outcome{Skipped: true, Note: "program rejected: " + res.ParseErr.Error()}
	}
	if c.Err != (res.Err != nil) {
		return hx.Fail(fmt.Sprintf("C09/%s/error-outcome/%s", who, fmtKind(c.Fmt.Bytes())),
			fmt.Sprintf("format %q with %d argument(s): specification error=%v, real error=%v", c.Fmt.Bytes(), len(c.Args), c.Err, res.Err),
			c.Err, fmt.Sprint(res.Err), prog)
	}
	if c.Err {
		return hx.OK(true)
	}
	out := c.Out.Bytes()
	want := append(append(append([]byte{}, out...), 1), out...)
	if !bytes.Equal(res.Stdout, want) {
		i := bytes.IndexByte(res.Stdout, 1)
		what := "printf"
		if i >= 0 && bytes.Equal(res.Stdout[:i], out) {
			what = "sprintf"
		}
		mode := ""
		if c.Chars {
			mode = " (chars mode)"
		}
		return hx.Fail(fmt.Sprintf("C09/%s/%s", who, feat),
			fmt.Sprintf("%s %q%s: output differs from C printf as specified", what, c.Fmt.Bytes(), mode),
			string(out), string(res.Stdout), prog)
	}
	return hx.OK(c.Fam == "m" || len(c.Flags) > 0 || c.Wk != "none" || c.Pk != "none")
}

func replayPrint(c *Case) hx.Outcome {
	out := string(c.Out.Bytes())
	prog := fmt.Sprintf("BEGIN {\n  OFMT = %s; CONVFMT = \"%%.3e\"\n  x = %s\n  print x\n  print x, \"s\", x\n}\n", hx.AwkString(c.Of.Bytes()), c.N.Expr())
	res := hx.RunAwk(prog, nil, nil, nil)
	if res.Panic != nil {
		return hx.Fail("C09/print/panic", fmt.Sprintf("panic: %v", res.Panic), nil, res.PanicStk, prog)
	}
	if res.ParseErr != nil {
		return hx.Outcome{Skipped: true, Note: "program rejected"}
	}
	want := out + "\n" + out + " s " + out + "\n"
	cls := "fraction"
	if c.Integral {
		cls = "integral"
	}
	if res.Err != nil || string(res.Stdout) != want {
		return hx.Fail("C09/print/ofmt/"+cls, fmt.Sprintf("print %s with OFMT=%s", c.N.Expr(), c.Of.Bytes()), want, string(res.Stdout), prog)
	}
	return hx.OK(!c.Integral)
}

// Replay is the hx.Replayer for Gen_Printf exports.
func Replay(raw json.RawMessage) hx.Outcome {
	var c Case
	if err := json.Unmarshal(raw, &c); err != nil {
		return hx.Outcome{Skipped: true, Note: "bad case: " + err.Error()}
	}
	switch c.Fam {
	case "d":
		if len(c.Args) == 0 {
			return hx.Outcome{Skipped: true, Note: "no arguments"}
		}
		return replayFmt(&c)
	case "m":
		return replayFmt(&c)
	case "o":
		return replayPrint(&c)
	case "q":
		return replaySeq(&c)
	}
	return hx.Outcome{Skipped: true, Note: "unknown family"}
}

// ---------------------------------------------------------------- C gate

func hexOrDash(b []byte) string {
	if len(b) == 0 {
		return "-"
	}
	return hex.EncodeToString(b)
}

func smallInt(n c05.NumJ) int {
	v := 0
	for _, d := range n.D {
		v = v*10 + d
	}
	for i := 0; i < n.X; i++ {
		v *= 10
	}
	if n.Neg {
		v = -v
	}
	return v
}

// gateLine renders a single-directive case as a cgate input line ("" if the
// case is not one the C library can be asked about).
func gateLine(c *Case) string {
	if c.Fam != "d" || c.Err || len(c.Args) == 0 {
		return ""
	}
	f := c.Fmt.Bytes()
	f = f[1 : len(f)-1] // without the brackets
	nstar := len(c.Args) - 1
	s := [2]int{}
	for i := 0; i < nstar && i < 2; i++ {
		s[i] = smallInt(c.Args[i].N)
	}
	var typ byte
	var arg string
	cf := string(f)
	withLL := cf[:len(cf)-1] + "ll" + cf[len(cf)-1:]
	intText := func() string {
		t := "0"
		if len(c.Cn.D) > 0 {
			t = c.Cn.Literal()
			if c.Cn.X > 0 { // expand the exponent: strtoll reads digits only
				t = t[:strings.IndexByte(t, 'e')] + strings.Repeat("0", c.Cn.X)
			}
			if c.Cn.Neg {
				t = "-" + t
			}
		}
		return t
	}
	switch verbClass(c.Verb) {
	case "d":
		typ, arg, cf = 'i', intText(), withLL
	case "u", "o", "x":
		typ, arg, cf = 'u', intText(), withLL
	case "e", "f", "g":
		typ = 'f'
		arg = c.Cn.Literal()
		if c.Cn.Neg {
			arg = "-" + arg
		}
	case "s":
		if c.Chars && isMultibyte(c.Cs.Bytes()) {
			return ""
		}
		typ, arg = 's', hexOrDash(c.Cs.Bytes())
	case "c":
		a := &c.Args[len(c.Args)-1]
		if a.Tag == "num" {
			code := smallInt(c.Cn)
			if code < 0 || code > 255 || (c.Chars && code > 127) {
				return ""
			}
			typ, arg = 'c', fmt.Sprint(code)
		} else {
			b := a.S.Bytes()
			if len(b) == 0 || (c.Chars && b[0] > 127) {
				return ""
			}
			typ, arg = 'c', fmt.Sprint(int(b[0]))
		}
	default:
		return ""
	}
	return fmt.Sprintf("%c %s %d %d %d %s", typ, hex.EncodeToString([]byte(cf)), nstar, s[0], s[1], arg)
}

// Gate is the "gate" mode: vreplay C09 gate -in cases.ndjson -cgate ./cgate -out gate.json
func Gate(args []string) int {
	fs := flag.NewFlagSet("gate", flag.ExitOnError)
	in := fs.String("in", "", "cases")
	bin := fs.String("cgate", "", "compiled cgate.c")
	out := fs.String("out", "", "summary json")
	filtered := fs.String("filtered", "", "cases without the ones the C library disagrees on")
	fs.Parse(args)
	f, err := os.Open(*in)
	if err != nil {
		fmt.Fprintln(os.Stderr, err)
		return 2
	}
	defer f.Close()
	var cases []*Case
	var raws [][]byte   // all case lines
	var rawIdx []int    // index into raws of every gated case
	var input bytes.Buffer
	sc := bufio.NewScanner(f)
	sc.Buffer(make([]byte, 1<<20), 1<<28)
	total := 0
	for sc.Scan() {
		var c Case
		if json.Unmarshal(sc.Bytes(), &c) != nil {
			continue
		}
		total++
		raws = append(raws, append([]byte{}, sc.Bytes()...))
		if l := gateLine(&c); l != "" {
			cc := c
			cases = append(cases, &cc)
			rawIdx = append(rawIdx, len(raws)-1)
			input.WriteString(l)
			input.WriteByte('\n')
		}
	}
	cmd := exec.Command(*bin)
	cmd.Stdin = &input
	res, err := cmd.Output()
	if err != nil {
		fmt.Fprintln(os.Stderr, "cgate failed:", err)
		return 2
	}
	lines := strings.Split(strings.TrimRight(string(res), "\n"), "\n")
	if len(lines) != len(cases) {
		fmt.Fprintf(os.Stderr, "cgate answered %d lines for %d cases\n", len(lines), len(cases))
		return 2
	}
	type mism struct {
		Fmt  string `json:"fmt"`
		Arg  string `json:"arg"`
		Spec string `json:"spec"`
		C    string `json:"c"`
	}
	var bad []mism
	nbad, nquirk := 0, 0
	drop := map[int]bool{}
	for i, c := range cases {
		var got []byte
		if lines[i] != "-" {
			got, _ = hex.DecodeString(lines[i])
		}
		o := c.Out.Bytes()
		want := o[1 : len(o)-1]
		if lines[i] != "?" && !bytes.Equal(got, want) && verbClass(c.Verb) == "g" && bytes.IndexByte(c.Flags.Bytes(), '#') >= 0 &&
			(bytes.Contains(got, []byte(".e")) || bytes.Contains(got, []byte(".E"))) {
			// glibc drops the zeros of %#g when rounding carries into the next power of ten
			// (printf("%#G", 999999.5) gives 1.E+06; the C standard requires 1.00000E+06):
			// neither side is trusted, the case is not replayed
			nquirk++
			drop[rawIdx[i]] = true
			continue
		}
		if lines[i] == "?" || !bytes.Equal(got, want) {
			nbad++
			drop[rawIdx[i]] = true
			if len(bad) < 20 {
				bad = append(bad, mism{string(c.Fmt.Bytes()), gateLine(c), string(want), string(got)})
			}
		}
	}
	if *filtered != "" {
		var fb bytes.Buffer
		for i, r := range raws {
			if !drop[i] {
				fb.Write(r)
				fb.WriteByte('\n')
			}
		}
		if err := os.WriteFile(*filtered, fb.Bytes(), 0o644); err != nil {
			fmt.Fprintln(os.Stderr, err)
			return 2
		}
	}
	sum := map[string]any{"cases": total, "gated": len(cases), "mismatches": nbad, "glibc_quirk_skipped": nquirk, "first": bad}
	hx.WriteJSON(*out, sum)
	fmt.Printf("C gate: %d of %d cases compared with the C library, %d disagreement(s) between the specification and the C library, %d skipped for a known glibc quirk\n", len(cases), total, nbad, nquirk)
	return 0
}

// WriteCGate is the "cgate-source" mode: writes cgate.c to the given path.
func WriteCGate(args []string) int {
	if len(args) != 1 {
		return 2
	}
	if err := os.WriteFile(args[0], []byte(CGateSource), 0o644); err != nil {
		fmt.Fprintln(os.Stderr, err)
		return 2
	}
	return 0
}

// replaySeq re-runs a recorded sequence of sprintf calls in ONE interpreter
// and compares the result of every call (the last one is the call TLC rejected).
func replaySeq(c *Case) hx.Outcome {
	var sb strings.Builder
	sb.WriteString("BEGIN {\n")
	for i := range c.Calls {
		cl := &c.Calls[i]
		sb.WriteString("  printf \"%s\\001\", sprintf(" + hx.AwkString(cl.Fmt.Bytes()))
		for j := range cl.Args {
			sb.WriteString(", " + argExpr(&cl.Args[j]))
		}
		sb.WriteString(")\n")
	}
	sb.WriteString("}\n")
	prog := sb.String()
	res := hx.RunAwk(prog, nil, &interp.Config{Chars: c.Chars}, nil)
	if res.Panic != nil {
		return hx.Fail("C09/format-cache/panic", fmt.Sprintf("panic: %v", res.Panic), nil, res.PanicStk, prog)
	}
	if res.ParseErr != nil {
		return hx.Outcome{Skipped: true, Note: "program rejected"}
	}
	outs := bytes.Split(res.Stdout, []byte{1})
	outs = outs[:len(outs)-1]
	for i := range c.Calls {
		cl := &c.Calls[i]
		if cl.Err {
			if i < len(outs) || res.Err == nil {
				return hx.Fail("C09/format-cache/sequence-dependent", fmt.Sprintf("call %d (%q) should fail", i+1, cl.Fmt.Bytes()), "error", string(res.Stdout), prog)
			}
			return hx.OK(true)
		}
		if i >= len(outs) || !bytes.Equal(outs[i], cl.Out.Bytes()) {
			got := "(no output)"
			if i < len(outs) {
				got = string(outs[i])
			}
			return hx.Fail("C09/format-cache/sequence-dependent",
				fmt.Sprintf("call %d of a sequence in one interpreter, sprintf(%q, ...): result differs from the specification although the same call alone agrees", i+1, cl.Fmt.Bytes()),
				string(cl.Out.Bytes()), got, prog)
		}
	}
	return hx.OK(true)
}
