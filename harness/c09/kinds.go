package c09

import (
	"bytes"
	"fmt"
	"strings"

	"github.com/benhoyt/goawk/interp"
	"github.com/benhoyt/goawk/verifharness/c05"
	"github.com/benhoyt/goawk/verifharness/hx"
)

// ---------------------------------------------------------------- argument kinds
//
// A value of the specification is rendered by its kind: a number and a string
// as constants, the uninitialised value as a variable nobody assigns, and a
// strnum -- text from INPUT -- by really reading it from input.  There are
// several ways for text to enter a program; the specification does not
// distinguish them, so a case with a strnum argument is run once per
// provenance and must agree every time.

var provenances = []string{"getline", "field", "split", "var"}

const unitSep = "\037" // separates the input texts inside a record / a split() string (never part of a text)

// binding: how the values of one program are made available.
type binding struct {
	prov  string
	texts [][]byte // the input texts, in order of first use
	exprs []string // one expression per bound value
}

func hasInput(args []c05.ValJ) bool {
	for i := range args {
		if args[i].Tag == "strnum" {
			return true
		}
	}
	return false
}

// provsFor: the provenances a list of values has to be run in.
func provsFor(lists ...[]c05.ValJ) []string {
	for _, l := range lists {
		if hasInput(l) {
			return provenances
		}
	}
	return []string{"const"}
}

// add binds further values and returns their expressions.
func (b *binding) add(args []c05.ValJ) []string {
	var out []string
	for i := range args {
		v := &args[i]
		var e string
		switch v.Tag {
		case "num":
			e = v.N.Expr()
		case "str":
			e = hx.AwkString(v.S.Bytes())
		case "strnum":
			b.texts = append(b.texts, v.S.Bytes())
			k := len(b.texts)
			switch b.prov {
			case "field":
				e = fmt.Sprintf("$%d", k)
			case "split":
				e = fmt.Sprintf("_in[%d]", k)
			default: // getline, var
				e = fmt.Sprintf("_in%d", k)
			}
		default:
			e = "un"
		}
		out = append(out, e)
	}
	b.exprs = append(b.exprs, out...)
	return out
}

// program wraps the statements of body so that the bound input texts are read
// the way the provenance says; it returns the source, the standard input and
// the Config.Vars entries.
func (b *binding) program(body string) (src string, stdin []byte, vars []string) {
	var sb strings.Builder
	switch b.prov {
	case "getline":
		sb.WriteString("BEGIN {\n")
		var in bytes.Buffer
		for k, t := range b.texts {
			fmt.Fprintf(&sb, "  getline _in%d\n", k+1)
			in.Write(t)
			in.WriteByte('\n')
		}
		sb.WriteString(body)
		sb.WriteString("}\n")
		return sb.String(), in.Bytes(), nil
	case "field":
		// one record holding every text, and a last field so that an empty text is still a field
		var in bytes.Buffer
		for _, t := range b.texts {
			in.Write(t)
			in.WriteString(unitSep)
		}
		in.WriteString("z\n")
		sb.WriteString("BEGIN { FS = \"\\037\" }\n{\n")
		sb.WriteString(body)
		sb.WriteString("}\n")
		return sb.String(), in.Bytes(), nil
	case "split":
		var all []byte
		for _, t := range b.texts {
			all = append(all, t...)
			all = append(all, unitSep...)
		}
		all = append(all, 'z')
		sb.WriteString("BEGIN {\n")
		fmt.Fprintf(&sb, "  split(%s, _in, \"\\037\")\n", hx.AwkString(all))
		sb.WriteString(body)
		sb.WriteString("}\n")
		return sb.String(), nil, nil
	case "var":
		for k, t := range b.texts {
			vars = append(vars, fmt.Sprintf("_in%d", k+1), string(t))
		}
	}
	sb.WriteString("BEGIN {\n")
	sb.WriteString(body)
	sb.WriteString("}\n")
	return sb.String(), nil, vars
}

func provNote(prov string) string {
	switch prov {
	case "getline":
		return " (input text read with getline var)"
	case "field":
		return " (input text as a field)"
	case "split":
		return " (input text as a split() element)"
	case "var":
		return " (input text as a -v / Config.Vars variable)"
	}
	return ""
}

// inputClass names what kind of input text the (last) argument is.
func inputClass(c *Case, a *c05.ValJ) string {
	s := a.S.Bytes()
	switch {
	case len(c.Alts) > 0:
		return "open-form-input"
	case len(s) == 0:
		return "empty-input"
	case c.Isnum == "yes" && (s[0] == ' ' || s[len(s)-1] == ' '):
		return "blank-padded-numeric-input"
	case c.Isnum == "yes":
		return "numeric-input"
	case isMultibyte(s):
		return "multibyte-input"
	}
	return "nonnumeric-input"
}

// ---------------------------------------------------------------- families d, k, m

func callArgs(exprs []string) string {
	var sb strings.Builder
	for _, e := range exprs {
		sb.WriteString(", ")
		sb.WriteString(e)
	}
	return sb.String()
}

// fmtProgram: printf and sprintf of the same call, separated by \001.
func fmtProgram(c *Case, prov string) (string, []byte, []string) {
	b := &binding{prov: prov}
	f := hx.AwkString(c.Fmt.Bytes())
	a := callArgs(b.add(c.Args))
	body := fmt.Sprintf("  printf %s%s\n  printf \"\\001\"\n  x = sprintf(%s%s)\n  printf \"%%s\", x\n", f, a, f, a)
	if len(c.Cf) > 0 { // a call recorded while CONVFMT was not the default
		body = "  CONVFMT = " + hx.AwkString(c.Cf.Bytes()) + "\n" + body
	}
	return b.program(body)
}

func runFmt(c *Case, prov string) (*hx.RunResult, string) {
	prog, stdin, vars := fmtProgram(c, prov)
	return hx.RunAwk(prog, stdin, &interp.Config{Chars: c.Chars, Vars: vars}, nil), prog
}

func twice(out []byte) []byte {
	return append(append(append([]byte{}, out...), 1), out...)
}

// judgeFmt compares one run of a single call with the prediction (and the
// predictions of the other dialects, if the argument is an open form).
func judgeFmt(c *Case, prov string) *hx.Outcome {
	res, prog := runFmt(c, prov)
	who := "multi"
	feat := "output"
	if c.Fam == "d" || c.Fam == "k" {
		who = verbClass(c.Verb)
		feat = feature(c)
	}
	fail := func(o hx.Outcome) *hx.Outcome { return &o }
	if res.Panic != nil {
		return fail(hx.Fail("C09/"+who+"/panic", fmt.Sprintf("panic: %v", res.Panic), nil, res.PanicStk, prog))
	}
	if res.ParseErr != nil {
		return fail(hx.Outcome{Skipped: true, Note: "program rejected: " + res.ParseErr.Error()})
	}
	if c.Err != (res.Err != nil) {
		return fail(hx.Fail(fmt.Sprintf("C09/%s/error-outcome/%s", who, fmtKind(c.Fmt.Bytes())),
			fmt.Sprintf("format %q with %d argument(s)%s: specification error=%v, real error=%v", c.Fmt.Bytes(), len(c.Args), provNote(prov), c.Err, res.Err),
			c.Err, fmt.Sprint(res.Err), prog))
	}
	if c.Err {
		return nil
	}
	out := c.Out.Bytes()
	if bytes.Equal(res.Stdout, twice(out)) {
		return nil
	}
	for i := range c.Alts {
		if !c.Alts[i].Err && bytes.Equal(res.Stdout, twice(c.Alts[i].Out.Bytes())) {
			return nil // the real code reads the open form the way another dialect does
		}
	}
	i := bytes.IndexByte(res.Stdout, 1)
	what := "printf"
	if i >= 0 && bytes.Equal(res.Stdout[:i], out) {
		what = "sprintf"
	}
	mode := ""
	if c.Chars {
		mode = " (chars mode)"
	}
	return fail(hx.Fail(fmt.Sprintf("C09/%s/%s", who, feat),
		fmt.Sprintf("%s %q%s%s: output differs from C printf on the argument converted the AWK way, as specified", what, c.Fmt.Bytes(), mode, provNote(prov)),
		string(out), string(res.Stdout), prog))
}

func replayFmt(c *Case) hx.Outcome {
	for _, prov := range provsFor(c.Args) {
		if o := judgeFmt(c, prov); o != nil {
			return *o
		}
	}
	if c.Fam == "k" {
		return hx.OK(c.Args[len(c.Args)-1].Tag == "strnum")
	}
	return hx.OK(c.Fam == "m" || len(c.Flags) > 0 || c.Wk != "none" || c.Pk != "none")
}

// ---------------------------------------------------------------- family q: runs

// seqProgram: every call of the run in ONE interpreter, results separated by \001.
func seqProgram(c *Case, prov string) (string, []byte, []string) {
	b := &binding{prov: prov}
	var sb strings.Builder
	for i := range c.Calls {
		cl := &c.Calls[i]
		if len(cl.Cf) > 0 {
			sb.WriteString("  CONVFMT = " + hx.AwkString(cl.Cf.Bytes()) + "\n")
		}
		sb.WriteString("  printf \"%s\\001\", sprintf(" + hx.AwkString(cl.Fmt.Bytes()) + callArgs(b.add(cl.Args)) + ")\n")
	}
	return b.program(sb.String())
}

// alone: the verdict on call i of a run when it is made alone in a fresh interpreter.
func alone(c *Case, i int) *hx.Outcome {
	cl := c.Calls[i]
	cl.Chars = c.Chars
	if cl.Fam == "" {
		cl.Fam = "m"
	}
	for _, prov := range provsFor(cl.Args) {
		if o := judgeFmt(&cl, prov); o != nil && o.Fail != nil {
			return o
		}
	}
	return nil
}

// replaySeq runs a sequence of sprintf calls in ONE interpreter and compares
// the result of every call.  A call that disagrees is made again alone in a
// fresh interpreter: if it disagrees there too it is an ordinary formatting
// deviation (signature of the single call), otherwise its result depends on
// the calls before it, i.e. on the memoised format translation.
func replaySeq(c *Case) hx.Outcome {
	var lists [][]c05.ValJ
	for i := range c.Calls {
		lists = append(lists, c.Calls[i].Args)
	}
	for _, prov := range provsFor(lists...) {
		prog, stdin, vars := seqProgram(c, prov)
		res := hx.RunAwk(prog, stdin, &interp.Config{Chars: c.Chars, Vars: vars}, nil)
		if res.Panic != nil {
			return hx.Fail("C09/format-cache/panic", fmt.Sprintf("panic: %v", res.Panic), nil, res.PanicStk, prog)
		}
		if res.ParseErr != nil {
			return hx.Outcome{Skipped: true, Note: "program rejected"}
		}
		outs := bytes.Split(res.Stdout, []byte{1})
		outs = outs[:len(outs)-1]
		bad := func(i int, what, want, got string) hx.Outcome {
			if o := alone(c, i); o != nil {
				o.Fail.What = fmt.Sprintf("call %d of a run: ", i+1) + o.Fail.What
				return *o
			}
			return hx.Fail("C09/format-cache/sequence-dependent", what, want, got, prog)
		}
		for i := range c.Calls {
			cl := &c.Calls[i]
			if cl.Err {
				if i < len(outs) || res.Err == nil {
					return bad(i, fmt.Sprintf("call %d (%q) should fail", i+1, cl.Fmt.Bytes()), "error", string(res.Stdout))
				}
				break
			}
			if i >= len(outs) || !bytes.Equal(outs[i], cl.Out.Bytes()) {
				got := "(no output)"
				if i < len(outs) {
					got = string(outs[i])
				}
				return bad(i, fmt.Sprintf("call %d of a run in one interpreter%s, sprintf(%q, ...): result differs from the specification although the same call alone agrees",
					i+1, provNote(prov), cl.Fmt.Bytes()), string(cl.Out.Bytes()), got)
			}
			if i == len(c.Calls)-1 && res.Err != nil {
				return bad(i, fmt.Sprintf("run failed after its last call: %v", res.Err), "no error", fmt.Sprint(res.Err))
			}
		}
	}
	return hx.OK(true)
}

// ---------------------------------------------------------------- family p: print lines

func printArgClass(c *Case) string {
	if c.Fraction {
		return "fraction"
	}
	for i := range c.Args {
		if c.Args[i].Tag == "num" {
			return "integral"
		}
	}
	return "text"
}

// printSig names the mechanism a wrong print line belongs to.  explicitOK: the
// same case with the default precision of OFMT written out (%g -> %.6g, which
// is the same format in C) agrees with the prediction.
func printSig(c *Case, explicitOK bool) string {
	if c.Defprec && c.Fraction && explicitOK {
		// OFMT is %g / %G without a precision: C's default precision is 6
		return "C09/print/ofmt-default-precision/fraction"
	}
	return fmt.Sprintf("C09/print/%s-mode-ofmt/%s", c.Mode, printArgClass(c))
}

// withPrecision writes C's default precision into a %g / %G format text.
func withPrecision(f hx.BS) hx.BS {
	b := f.Bytes()
	return hx.FromBytes(append(append(append([]byte{}, b[:len(b)-1]...), ".6"...), b[len(b)-1]))
}

// printProgram: setter "config" selects the output mode through interp.Config
// (the -o option), "var" by assigning OUTPUTMODE in the program.
func printProgram(c *Case, prov, setter string) (string, []byte, *interp.Config) {
	b := &binding{prov: prov}
	var sb strings.Builder
	fmt.Fprintf(&sb, "  OFMT = %s; CONVFMT = %s\n", hx.AwkString(c.Of.Bytes()), hx.AwkString(c.Cf.Bytes()))
	if c.Mode == "default" {
		fmt.Fprintf(&sb, "  OFS = %s\n", hx.AwkString(c.Ofs.Bytes()))
	}
	cfg := &interp.Config{}
	if c.Mode != "default" {
		if setter == "var" {
			fmt.Fprintf(&sb, "  OUTPUTMODE = %q\n", c.Mode)
		} else if c.Mode == "csv" {
			cfg.OutputMode = interp.CSVMode
		} else {
			cfg.OutputMode = interp.TSVMode
		}
	}
	exprs := b.add(c.Args)
	// the arguments go through variables, as in a program that computes and then prints
	for i, e := range exprs {
		if c.Args[i].Tag == "num" {
			fmt.Fprintf(&sb, "  _n%d = %s\n", i, e)
			exprs[i] = fmt.Sprintf("_n%d", i)
		}
	}
	sb.WriteString("  print " + strings.Join(exprs, ", ") + "\n")
	src, stdin, vars := b.program(sb.String())
	cfg.Vars = vars
	return src, stdin, cfg
}

func replayPrint(c *Case) hx.Outcome {
	if len(c.Args) == 0 {
		return hx.Outcome{Skipped: true, Note: "print without arguments"}
	}
	setters := []string{"config"}
	if c.Mode != "default" {
		setters = []string{"config", "var"}
	}
	want := c.Out.Bytes()
	for _, prov := range provsFor(c.Args) {
		for _, setter := range setters {
			prog, stdin, cfg := printProgram(c, prov, setter)
			res := hx.RunAwk(prog, stdin, cfg, nil)
			if res.Panic != nil {
				return hx.Fail("C09/print/panic", fmt.Sprintf("panic: %v", res.Panic), nil, res.PanicStk, prog)
			}
			if res.ParseErr != nil {
				return hx.Outcome{Skipped: true, Note: "program rejected: " + res.ParseErr.Error()}
			}
			if res.Err != nil || !bytes.Equal(res.Stdout, want) {
				how := ""
				if c.Mode != "default" {
					how = map[string]string{"config": " selected by Config.OutputMode (-o)", "var": " selected by OUTPUTMODE"}[setter]
				}
				explicitOK := false
				if c.Defprec && res.Err == nil {
					c2 := *c
					c2.Of = withPrecision(c.Of)
					p2, in2, cfg2 := printProgram(&c2, prov, setter)
					r2 := hx.RunAwk(p2, in2, cfg2, nil)
					explicitOK = r2.Err == nil && bytes.Equal(r2.Stdout, want)
				}
				return hx.Fail(printSig(c, explicitOK),
					fmt.Sprintf("print in %s output mode%s with OFMT=%q CONVFMT=%q%s: non-integral numbers must be written with OFMT, integral ones as integers, everything else as its text (error: %v)",
						c.Mode, how, c.Of.Bytes(), c.Cf.Bytes(), provNote(prov), res.Err),
					string(want), string(res.Stdout), prog)
			}
		}
	}
	return hx.OK(c.Fraction)
}

// ---------------------------------------------------------------- family v: %s of a number under CONVFMT

func replayConvfmt(c *Case) hx.Outcome {
	prog := fmt.Sprintf("BEGIN {\n  CONVFMT = %s; OFMT = \"%%.3e\"\n  x = %s\n  printf \"%%s\\001%%s\", x, sprintf(\"%%s\", x)\n}\n", hx.AwkString(c.Cf.Bytes()), c.N.Expr())
	res := hx.RunAwk(prog, nil, nil, nil)
	if res.Panic != nil {
		return hx.Fail("C09/s/panic", fmt.Sprintf("panic: %v", res.Panic), nil, res.PanicStk, prog)
	}
	if res.ParseErr != nil {
		return hx.Outcome{Skipped: true, Note: "program rejected"}
	}
	if res.Err != nil || !bytes.Equal(res.Stdout, twice(c.Out.Bytes())) {
		sig := "C09/s/convfmt/integral"
		explicitOK := false
		if c.Defprec && res.Err == nil {
			p2 := strings.Replace(prog, hx.AwkString(c.Cf.Bytes()), hx.AwkString(withPrecision(c.Cf).Bytes()), 1)
			r2 := hx.RunAwk(p2, nil, nil, nil)
			explicitOK = r2.Err == nil && bytes.Equal(r2.Stdout, twice(c.Out.Bytes()))
		}
		switch {
		case c.Defprec && c.Fraction && explicitOK:
			sig = "C09/s/convfmt-default-precision/fraction"
		case c.Fraction:
			sig = "C09/s/convfmt/fraction"
		}
		return hx.Fail(sig, fmt.Sprintf("%%s of the number %s with CONVFMT=%q: the argument converted the AWK way is the number written with CONVFMT (an integral one as an integer)",
			c.N.Expr(), c.Cf.Bytes()), string(twice(c.Out.Bytes())), string(res.Stdout), prog)
	}
	return hx.OK(c.Fraction)
}
