package c20

import (
	"bufio"
	"encoding/json"
	"fmt"
	"math/rand"
	"os"

	"github.com/benhoyt/goawk/internal/ast"
	"github.com/benhoyt/goawk/parser"
	"github.com/benhoyt/goawk/verifharness/c04"
	"github.com/benhoyt/goawk/verifharness/hx"
)

// LitEvent is one literal as the real printer writes it, with the value of
// the syntax-tree node it was printed from.
type LitEvent struct {
	Ev   string `json:"ev"`
	Kind string `json:"kind,omitempty"` // "str" or "re"
	Lit  hx.BS  `json:"lit"` // the printed literal, delimiters included
	Val  hx.BS  `json:"val"` // the node's value
	Src  string `json:"src,omitempty"`
}

func litEvents(p *ast.Program, name string, out *[]LitEvent) {
	visit := func(e ast.Expr) {
		switch e := e.(type) {
		case *ast.StrExpr:
			k := "str"
			if e.Regex {
				k = "re"
			}
			*out = append(*out, LitEvent{Ev: "step", Kind: k, Lit: hx.FromBytes([]byte(e.String())), Val: hx.FromBytes([]byte(e.Value)), Src: name})
		case *ast.RegExpr:
			*out = append(*out, LitEvent{Ev: "step", Kind: "re", Lit: hx.FromBytes([]byte(e.String())), Val: hx.FromBytes([]byte(e.Regex)), Src: name})
		}
	}
	walkProgram(p, visit)
}

func walkProgram(p *ast.Program, f func(ast.Expr)) {
	for _, b := range p.Begin {
		walkStmts(b, f)
	}
	for _, a := range p.Actions {
		for _, e := range a.Pattern {
			walkExpr(e, f)
		}
		walkStmts(a.Stmts, f)
	}
	for _, b := range p.End {
		walkStmts(b, f)
	}
	for _, fn := range p.Functions {
		walkStmts(fn.Body, f)
	}
}

func walkStmts(ss ast.Stmts, f func(ast.Expr)) {
	for _, s := range ss {
		switch s := s.(type) {
		case *ast.PrintStmt:
			walkExprs(s.Args, f)
			walkExpr(s.Dest, f)
		case *ast.PrintfStmt:
			walkExprs(s.Args, f)
			walkExpr(s.Dest, f)
		case *ast.ExprStmt:
			walkExpr(s.Expr, f)
		case *ast.IfStmt:
			walkExpr(s.Cond, f)
			walkStmts(s.Body, f)
			walkStmts(s.Else, f)
		case *ast.ForStmt:
			if s.Pre != nil {
				walkStmts(ast.Stmts{s.Pre}, f)
			}
			walkExpr(s.Cond, f)
			if s.Post != nil {
				walkStmts(ast.Stmts{s.Post}, f)
			}
			walkStmts(s.Body, f)
		case *ast.ForInStmt:
			walkStmts(s.Body, f)
		case *ast.WhileStmt:
			walkExpr(s.Cond, f)
			walkStmts(s.Body, f)
		case *ast.DoWhileStmt:
			walkStmts(s.Body, f)
			walkExpr(s.Cond, f)
		case *ast.ExitStmt:
			walkExpr(s.Status, f)
		case *ast.ReturnStmt:
			walkExpr(s.Value, f)
		case *ast.DeleteStmt:
			walkExprs(s.Index, f)
		case *ast.BlockStmt:
			walkStmts(s.Body, f)
		}
	}
}

func walkExprs(es []ast.Expr, f func(ast.Expr)) {
	for _, e := range es {
		walkExpr(e, f)
	}
}

func walkExpr(e ast.Expr, f func(ast.Expr)) {
	if e == nil {
		return
	}
	f(e)
	switch e := e.(type) {
	case *ast.FieldExpr:
		walkExpr(e.Index, f)
	case *ast.NamedFieldExpr:
		walkExpr(e.Field, f)
	case *ast.UnaryExpr:
		walkExpr(e.Value, f)
	case *ast.BinaryExpr:
		walkExpr(e.Left, f)
		walkExpr(e.Right, f)
	case *ast.InExpr:
		walkExprs(e.Index, f)
	case *ast.CondExpr:
		walkExpr(e.Cond, f)
		walkExpr(e.True, f)
		walkExpr(e.False, f)
	case *ast.IndexExpr:
		walkExprs(e.Index, f)
	case *ast.AssignExpr:
		walkExpr(e.Left, f)
		walkExpr(e.Right, f)
	case *ast.AugAssignExpr:
		walkExpr(e.Left, f)
		walkExpr(e.Right, f)
	case *ast.IncrExpr:
		walkExpr(e.Expr, f)
	case *ast.CallExpr:
		walkExprs(e.Args, f)
	case *ast.UserCallExpr:
		walkExprs(e.Args, f)
	case *ast.MultiExpr:
		walkExprs(e.Exprs, f)
	case *ast.GetlineExpr:
		walkExpr(e.Command, f)
		walkExpr(e.Target, f)
		walkExpr(e.File, f)
	case *ast.GroupingExpr:
		walkExpr(e.Expr, f)
	}
}

var strPieces = [][]byte{
	[]byte("a"), []byte("F"), []byte("0"), []byte("7"), []byte(" "), []byte(`"`), []byte(`\`), []byte("/"), []byte("'"),
	{0}, {7}, {8}, {9}, {10}, {11}, {12}, {13}, {27}, {31}, {127}, {128}, {0xc3, 0xa9}, {0xc2, 0x85}, {0xc2, 0xad},
	{0xe2, 0x80, 0xa8}, {0xef, 0xbf, 0xbd}, {0xf0, 0x9f, 0x98, 0x80}, {0xf3, 0xa0, 0x80, 0x81}, {0xc3}, {0xff}, {0xed, 0xa0, 0x80},
}

var rePieces = []string{"a", `\/`, `\\`, `\.`, `[\/]`, "=", " ", `"`, ".", `[a\/]`, `\"`, "b*", "(", ")", "|", "x+", "^", "$", `\(`}

// Record writes literal events: the literals of the corpus programs and
// seeded random literals, each taken from the real syntax tree (value) and
// the real printer (text).
func Record(seed int64, n int, out string) (int, error) {
	f, err := os.Create(out)
	if err != nil {
		return 0, err
	}
	defer f.Close()
	w := bufio.NewWriter(f)
	defer w.Flush()
	enc := json.NewEncoder(w)
	enc.SetEscapeHTML(false)
	traces := 0
	seen := map[string]bool{}
	emit := func(evs []LitEvent) {
		var fresh []LitEvent
		for _, ev := range evs {
			key := ev.Kind + "\x00" + ev.Lit.String() + "\x00" + ev.Val.String()
			if len(ev.Lit) > 300 || seen[key] {
				continue
			}
			seen[key] = true
			fresh = append(fresh, ev)
		}
		if len(fresh) == 0 {
			return
		}
		enc.Encode(map[string]string{"ev": "reset"})
		for _, ev := range fresh {
			enc.Encode(ev)
		}
		traces++
	}
	// 1. the corpus
	for _, it := range c04.Corpus(c04.RepoDir()) {
		prog, err := parser.ParseProgram([]byte(it.Src), nil)
		if err != nil {
			continue
		}
		var evs []LitEvent
		litEvents(&prog.ResolvedProgram.Program, it.Name, &evs)
		emit(evs)
	}
	// 2. seeded random literals: spelled in octal / unit form, read by the real parser, printed by the real printer
	rnd := rand.New(rand.NewSource(seed))
	for i := 0; i < n; i++ {
		var src string
		if i%3 != 2 {
			var v []byte
			for k := 1 + rnd.Intn(4); k > 0; k-- {
				v = append(v, strPieces[rnd.Intn(len(strPieces))]...)
			}
			src = "BEGIN { x = " + hx.AwkString(v) + " }"
		} else {
			re := ""
			for k := 1 + rnd.Intn(3); k > 0; k-- {
				re += rePieces[rnd.Intn(len(rePieces))]
			}
			if rnd.Intn(2) == 0 {
				src = "BEGIN { x = /" + re + "/ }"
			} else {
				src = "BEGIN { x = y ~ /" + re + "/ }"
			}
		}
		prog, err := parser.ParseProgram([]byte(src), nil)
		if err != nil {
			continue
		}
		var evs []LitEvent
		litEvents(&prog.ResolvedProgram.Program, fmt.Sprintf("random#%d", i), &evs)
		emit(evs)
	}
	return traces, nil
}

// CorpusMode writes the corpus as replay cases (vreplay C20 corpus -out file).
func CorpusMode(args []string) int {
	out := ""
	for i := 0; i+1 < len(args); i++ {
		if args[i] == "-out" {
			out = args[i+1]
		}
	}
	if out == "" {
		fmt.Fprintln(os.Stderr, "usage: vreplay C20 corpus -out file")
		return 2
	}
	f, err := os.Create(out)
	if err != nil {
		fmt.Fprintln(os.Stderr, err)
		return 2
	}
	defer f.Close()
	w := bufio.NewWriter(f)
	defer w.Flush()
	enc := json.NewEncoder(w)
	enc.SetEscapeHTML(false)
	items := c04.Corpus(c04.RepoDir())
	for _, it := range items {
		enc.Encode(map[string]string{"fam": "corpus", "src": it.Src, "name": it.Name})
	}
	fmt.Printf("corpus: %d programs\n", len(items))
	return 0
}
