// Package c20 binds the specification (Grammar.tla, GrammarProg.tla,
// GrammarLit.tla) to the real printer: for every program exported by TLC
// -- expression trees in five contexts, statement forms, program shapes,
// string / regex / numeric literals -- the text produced by Program.String
// must be accepted by the parser, must denote the same syntax tree (the one
// the specification predicts for the source), and must print to itself.
// In the other direction literals printed by the real printer are recorded
// for Trace_GrammarLit to read with the specification's lexical rules.
package c20

import (
	"encoding/json"
	"fmt"
	"os"
	"regexp"
	"sort"
	"strconv"
	"strings"

	"github.com/benhoyt/goawk/internal/ast"
	"github.com/benhoyt/goawk/parser"
	"github.com/benhoyt/goawk/verifharness/c04"
	"github.com/benhoyt/goawk/verifharness/hx"
)

// Case is the union of the exported families.
type Case struct {
	Fam      string          `json:"fam"`
	Ctx      string          `json:"ctx"`
	Min      []string        `json:"min"`
	Full     []string        `json:"full"`
	Loose    []string        `json:"loose"`
	Toks     []string        `json:"toks"`
	Sx       string          `json:"sx"`
	Rt       json.RawMessage `json:"rt"`
	NOps     int             `json:"nops"`
	Deriv    []string        `json:"deriv"`
	Lit      json.RawMessage `json:"lit"`
	Val      hx.BS           `json:"val"`
	Printed  string          `json:"printed"`
	Rsx      string          `json:"rsx"`
	Src      string          `json:"src"`
	Kind     string          `json:"kind"`
}

func (c *Case) rtString() string {
	var s string
	if json.Unmarshal(c.Rt, &s) == nil {
		return s
	}
	return ""
}
func (c *Case) rtBytes() (hx.BS, bool) {
	var b hx.BS
	if len(c.Rt) > 0 && c.Rt[0] == '[' && json.Unmarshal(c.Rt, &b) == nil {
		return b, true
	}
	return nil, false
}

var debugGate = os.Getenv("VERIF_C20_DEBUG") != ""

func parse(src []byte) (p *parser.Program, err error, pan any) {
	defer func() {
		if r := recover(); r != nil {
			pan = r
		}
	}()
	p, err = parser.ParseProgram(src, nil)
	return
}

func sx(p *parser.Program, kinds bool) string {
	return c04.ProgramSexpr(&p.ResolvedProgram.Program, c04.Mode{RegexKinds: kinds})
}

// ---- classification of a failure into a mechanism-specific signature ----

var posRe = regexp.MustCompile(`at (\d+):(\d+)`)

// enclosing returns the smallest parenthesised group of s around byte offset i, one level up.
func enclosing(s string, i int) string {
	if i >= len(s) {
		i = len(s) - 1
	}
	if i < 0 {
		return s
	}
	up := 2
	depth := 0
	start := 0
	for j := i; j >= 0; j-- {
		if s[j] == ')' && j != i {
			depth++
		} else if s[j] == '(' {
			if depth == 0 {
				up--
				if up == 0 {
					start = j
					break
				}
			} else {
				depth--
			}
		}
	}
	depth = 0
	for j := start; j < len(s); j++ {
		if s[j] == '(' {
			depth++
		} else if s[j] == ')' {
			depth--
			if depth == 0 {
				return s[start : j+1]
			}
		}
	}
	return s[start:]
}

func firstDiff(a, b string) int {
	n := len(a)
	if len(b) < n {
		n = len(b)
	}
	for i := 0; i < n; i++ {
		if a[i] != b[i] {
			return i
		}
	}
	return n
}

var signRe = regexp.MustCompile(`\(u([-+]) \((u|pre)([-+])`) // (u- (u-   (u- (pre--
var numTokRe = regexp.MustCompile(`[0-9.]+(e[-+]?[0-9]+)?|[-+]Inf|NaN`)

// mechanismOf looks at where the two trees / texts part and names the printer mechanism.
func mechanismOf(what, s1, sx1, sx2, errText string, fallback string) string {
	switch what {
	case "tree":
		i := firstDiff(sx1, sx2)
		ctx := enclosing(sx1, i)
		for _, m := range signRe.FindAllStringSubmatch(ctx, -1) {
			if m[1] == m[3] {
				return "C20/unary-sign/fused-with-operand-sign/tree-" + map[string]string{"u": "sign-sign", "pre": "sign-incr"}[m[2]]
			}
		}
		if pg := printGroup(sx1, i); pg != "" {
			if strings.Contains(pg, "(> ") || strings.Contains(pg, "(pget ") {
				return "C20/print-args/parenthesised-list-printed-bare-exposes-gt-or-getline/tree"
			}
			if printListExposed(pg) == "cond" {
				return "C20/print-args/parenthesised-list-printed-bare-exposes-conditional-before-redirection/tree"
			}
		}
		// inside a string atom?
		if lit := atomAt(sx1, i); strings.HasPrefix(lit, `"`) {
			return stringMechanism(s1, "value")
		}
		if lit := atomAt(sx1, i); lit == "+Inf" || lit == "-Inf" || lit == "NaN" {
			return "C20/number/non-finite-printed-as-name/tree"
		}
	case "reparse-error":
		if m := posRe.FindStringSubmatch(errText); m != nil {
			ln, _ := strconv.Atoi(m[1])
			col, _ := strconv.Atoi(m[2])
			lines := strings.Split(s1, "\n")
			if ln >= 1 && ln <= len(lines) {
				l := lines[ln-1]
				lo, hi := col-6, col+3
				if lo < 0 {
					lo = 0
				}
				if hi > len(l) {
					hi = len(l)
				}
				if lo < hi {
					snip := l[lo:hi]
					for _, m := range signRe.FindAllStringSubmatch(sx1, -1) {
						if m[1] == m[3] && strings.Contains(snip, m[1]+m[1]) {
							kind := "sign-sign"
							if m[2] == "pre" && strings.Contains(snip, m[1]+m[1]+m[1]) {
								kind = "sign-incr"
							}
							return "C20/unary-sign/fused-with-operand-sign/reparse-error-" + kind
						}
					}
				}
				tl := strings.TrimSpace(l)
				if strings.HasPrefix(tl, "print ") || strings.HasPrefix(tl, "printf ") {
					switch printListExposed(sx1) {
					case "gt":
						return "C20/print-args/parenthesised-list-printed-bare-exposes-gt-or-getline/reparse-error"
					case "cond":
						return "C20/print-args/parenthesised-list-printed-bare-exposes-conditional-before-redirection/reparse-error"
					}
				}
				if strings.Contains(l, `\u`) || strings.Contains(l, `\U`) || strings.Contains(l, `\x`) {
					return stringMechanism(s1, "reparse-error")
				}
			}
		}
	case "reprint":
		// s2 is passed in sx2, s1 in sx1 for this case
		i := firstDiff(sx1, sx2)
		for _, loc := range numTokRe.FindAllStringIndex(sx1, -1) {
			if loc[0] <= i && i <= loc[1] {
				return "C20/number/reprint-differs/six-digit-rounding"
			}
		}
	}
	return fallback
}

// printGroup returns the (print ...) / (printf ...) group of s that contains offset i ("" if none).
func printGroup(s string, i int) string {
	if i >= len(s) {
		i = len(s) - 1
	}
	for j := i; j >= 0; j-- {
		if strings.HasPrefix(s[j:], "(print ") || strings.HasPrefix(s[j:], "(printf ") {
			depth := 0
			for k := j; k < len(s); k++ {
				if s[k] == '(' {
					depth++
				} else if s[k] == ')' {
					depth--
					if depth == 0 {
						if k >= i {
							return s[j : k+1]
						}
						break
					}
				}
			}
		}
	}
	return ""
}

// printListExposed: some print statement has an argument that is a > comparison or a cmd | getline ("gt"),
// or a conditional as its last argument followed by a redirection ("cond"); "" otherwise.
func printListExposed(sx string) string {
	res := ""
	for j := 0; j < len(sx); j++ {
		if strings.HasPrefix(sx[j:], "(print ") || strings.HasPrefix(sx[j:], "(printf ") {
			// walk the direct children of the group
			depth := 0
			lastChild := ""
			redirected := false
			for k := j; k < len(sx); k++ {
				if sx[k] == '(' {
					depth++
					if depth == 2 {
						if strings.HasPrefix(sx[k:], "(> ") || strings.HasPrefix(sx[k:], "(pget ") {
							return "gt"
						}
						if !redirected {
							lastChild = sx[k:]
						}
					}
				} else if sx[k] == ')' {
					depth--
					if depth == 0 {
						break
					}
				} else if depth == 1 && (strings.HasPrefix(sx[k:], " > ") || strings.HasPrefix(sx[k:], " >> ") || strings.HasPrefix(sx[k:], " | ")) {
					redirected = true
				}
			}
			if redirected && strings.HasPrefix(lastChild, "(?: ") {
				res = "cond"
			}
		}
	}
	return res
}

func atomAt(s string, i int) string {
	if i >= len(s) {
		i = len(s) - 1
	}
	lo := i
	for lo > 0 && s[lo-1] != ' ' && s[lo-1] != '(' {
		lo--
	}
	hi := i
	for hi < len(s) && s[hi] != ' ' && s[hi] != ')' {
		hi++
	}
	if lo > hi {
		return ""
	}
	return s[lo:hi]
}

var uEsc = regexp.MustCompile(`\\u[0-9a-fA-F]{4}[0-9a-fA-F]`)

func stringMechanism(s1, what string) string {
	switch {
	case strings.Contains(s1, `\U`):
		return "C20/string-quote/go-U-escape-is-not-awk/" + what
	case uEsc.MatchString(s1):
		return "C20/string-quote/u-escape-absorbs-following-hex-digits/" + what
	}
	return "C20/string-quote/other/" + what
}

var leafProds = map[string]bool{"name": true, "num": true, "str": true, "re": true, "lname": true,
	"b0": true, "b0semi": true, "b1": true, "b1bare": true, "b2": true}

func derivName(deriv []string) string {
	seen := map[string]bool{}
	var ops []string
	for _, p := range deriv {
		if leafProds[p] || seen[p] {
			continue
		}
		seen[p] = true
		ops = append(ops, p)
	}
	sort.Strings(ops)
	if len(ops) > 3 {
		ops = ops[:3]
	}
	if len(ops) == 0 {
		return "atom"
	}
	return strings.Join(ops, ",")
}

// roundTrip is the property: print, parse again, compare trees, print again.
//
//	gate: S-expression the specification gives the source ("" = none); a source the real parser reads
//	      differently (or rejects) is not a C20 matter and is skipped;
//	rt:   the specification's prediction for the re-parsed tree ("" = none).
func roundTrip(src []byte, gate, rt, label string, nontrivial bool) hx.Outcome {
	p1, err, pan := parse(src)
	if pan != nil || err != nil {
		if debugGate && gate != "" {
			return hx.Fail("DEBUG/source-rejected/"+label, "gate", gate, fmt.Sprint(err, pan), string(src))
		}
		return hx.Outcome{Skipped: true, Note: "source not accepted"}
	}
	if gate != "" && sx(p1, false) != gate {
		if debugGate {
			return hx.Fail("DEBUG/gate/"+label, "gate", gate, sx(p1, false), string(src))
		}
		return hx.Outcome{Skipped: true, Note: "the real parser reads the source differently from the specification (not judged here)"}
	}
	return roundTripParsed(p1, src, rt, label, nontrivial)
}

func roundTripParsed(p1 *parser.Program, src []byte, rt, label string, nontrivial bool) hx.Outcome {
	var s1 string
	var pan any
	func() {
		defer func() {
			if r := recover(); r != nil {
				pan = r
			}
		}()
		s1 = p1.String()
	}()
	if pan != nil {
		return hx.Fail("C20/"+label+"/printer-panic/-", fmt.Sprintf("Program.String panicked: %v", pan), nil, fmt.Sprint(pan), string(src))
	}
	sx1 := sx(p1, true)
	p2, err, pan := parse([]byte(s1))
	if pan != nil || err != nil {
		et := fmt.Sprint(err, pan)
		sig := mechanismOf("reparse-error", s1, sx1, "", et, "C20/"+label+"/reparse-error/-")
		return hx.Fail(sig, fmt.Sprintf("the printed form of %q is not accepted by the parser: %s", src, et), "a program that parses to "+sx1, map[string]string{"printed": s1, "error": et}, string(src))
	}
	sx2 := sx(p2, true)
	if sx2 != sx1 {
		sig := mechanismOf("tree", s1, sx1, sx2, "", "C20/"+label+"/tree/-")
		return hx.Fail(sig, fmt.Sprintf("the printed form of %q parses to a different tree", src), sx1, map[string]string{"printed": s1, "tree": sx2}, string(src))
	}
	if rt != "" {
		if got := sx(p2, false); got != rt {
			return hx.Fail("C20/"+label+"/tree-vs-prediction/-", fmt.Sprintf("the printed form of %q does not parse to the tree the specification predicts", src), rt, map[string]string{"printed": s1, "tree": got}, string(src))
		}
	}
	s2 := p2.String()
	if s2 != s1 {
		sig := mechanismOf("reprint", s1, s1, s2, "", "C20/"+label+"/reprint/-")
		return hx.Fail(sig, fmt.Sprintf("printing the re-parsed program of %q gives another text", src), s1, s2, string(src))
	}
	return hx.OK(nontrivial)
}

func bytesOf(raw json.RawMessage) []byte {
	var b hx.BS
	if json.Unmarshal(raw, &b) == nil && len(raw) > 0 && raw[0] == '[' {
		return b.Bytes()
	}
	var s string
	if json.Unmarshal(raw, &s) == nil {
		return []byte(s)
	}
	return nil
}

// first returns the first failing / last outcome of a list of sub-checks of one case.
func first(outs ...hx.Outcome) hx.Outcome {
	res := hx.Outcome{Skipped: true}
	for _, o := range outs {
		if o.Fail != nil {
			return o
		}
		if !o.Skipped {
			if res.Skipped {
				res = o
			} else {
				res.Nontrivial = res.Nontrivial || o.Nontrivial
			}
		} else if res.Skipped {
			res.Note = o.Note
		}
	}
	return res
}

// literal extracts the literal of `BEGIN { x = <lit> }` / `BEGIN { x = y ~ <lit> }`.
func literal(p *parser.Program) (val string, ok bool) {
	defer func() {
		if r := recover(); r != nil {
			ok = false
		}
	}()
	e := p.Begin[0][0].(*ast.ExprStmt).Expr.(*ast.AssignExpr).Right
	if b, isBin := e.(*ast.BinaryExpr); isBin {
		e = b.Right
	}
	switch e := e.(type) {
	case *ast.StrExpr:
		return e.Value, true
	case *ast.RegExpr:
		return e.Regex, true
	}
	return "", false
}

func replayLiteral(c *Case) hx.Outcome {
	lit := bytesOf(c.Lit)
	rt, hasRt := c.rtBytes()
	var outs []hx.Outcome
	wrappers := []string{"BEGIN { x = %s }"}
	if c.Fam == "re" {
		wrappers = append(wrappers, "BEGIN { x = y ~ %s }")
	}
	interesting := false
	for _, b := range c.Val {
		if b < 32 || b >= 127 || b == '"' || b == '\\' || b == '/' {
			interesting = true
		}
	}
	for _, w := range wrappers {
		src := []byte(strings.Replace(w, "%s", string(lit), 1))
		p1, err, pan := parse(src)
		if err != nil || pan != nil {
			if debugGate {
				return hx.Fail("DEBUG/literal-rejected/"+c.Fam, "gate", nil, fmt.Sprint(err, pan), string(src))
			}
			outs = append(outs, hx.Outcome{Skipped: true, Note: "source literal not accepted"})
			continue
		}
		if v, ok := literal(p1); !ok || v != string(c.Val.Bytes()) {
			if debugGate {
				return hx.Fail("DEBUG/literal-gate/"+c.Fam, "gate", c.Val, hx.FromBytes([]byte(v)), string(src))
			}
			outs = append(outs, hx.Outcome{Skipped: true, Note: "the real lexer reads the source literal differently from the specification (not judged here)"})
			continue
		}
		o := roundTripParsed(p1, src, "", c.Fam+"-literal", interesting)
		if o.Fail == nil && hasRt {
			// the specification's prediction: after printing and parsing again the literal denotes rt
			p2, _, _ := parse([]byte(p1.String()))
			if v, ok := literal(p2); !ok || v != string(rt.Bytes()) {
				o = hx.Fail("C20/"+c.Fam+"-literal/value-vs-prediction/-", "the printed literal does not denote the predicted value", rt, hx.FromBytes([]byte(v)), string(src))
			}
		}
		outs = append(outs, o)
	}
	return first(outs...)
}

// Replay runs the round-trip property on one exported case.
func Replay(raw json.RawMessage) hx.Outcome {
	var c Case
	if err := json.Unmarshal(raw, &c); err != nil {
		return hx.Outcome{Skipped: true, Note: "undecodable case"}
	}
	switch c.Fam {
	case "expr":
		want := c04.ExpectProgram(c.Ctx, c.Sx)
		rt := c04.ExpectProgram(c.Ctx, c.rtString())
		label := "expr:" + c04.MechanismName(c.Deriv)
		outs := []hx.Outcome{
			roundTrip([]byte(c04.Program(c.Ctx, c04.Text(c.Min))), want, rt, label, c.NOps >= 2),
			roundTrip([]byte(c04.Program(c.Ctx, c04.Text(c.Full))), want, rt, label, c.NOps >= 2),
		}
		if len(c.Loose) > 0 && c04.Text(c.Loose) != c04.Text(c.Min) {
			outs = append(outs, roundTrip([]byte(c04.Program(c.Ctx, c04.Text(c.Loose))), "", "", label, c.NOps >= 2))
		}
		return first(outs...)
	case "prog", "shape":
		label := "shape"
		if c.Fam == "prog" {
			label = "stmt:" + derivName(c.Deriv)
		}
		return roundTrip([]byte(c04.Text(c.Toks)), c.Sx, c.rtString(), label, len(c.Deriv) >= 2 || c.Fam == "shape")
	case "str", "re":
		return replayLiteral(&c)
	case "num":
		src := []byte("BEGIN { x = " + string(bytesOf(c.Lit)) + " }")
		return roundTrip(src, "", "", "num-literal", true)
	case "corpus":
		return roundTrip([]byte(c.Src), "", "", "corpus", true)
	case "littrace":
		// a printed literal that the specification reads as another value than the node's: a C20 violation if the
		// real lexer, too, reads the printed literal as another value
		lit := bytesOf(c.Lit)
		w := "BEGIN { x = %s }"
		if c.Kind == "re" {
			w = "BEGIN { x = y ~ %s }"
		}
		src := strings.Replace(w, "%s", string(lit), 1)
		p, err, pan := parse([]byte(src))
		if err != nil || pan != nil {
			return hx.Fail(stringMechanism(src, "reparse-error"), fmt.Sprintf("printed literal %q (from %s) is not accepted by the lexer", lit, c.Src), c.Val, fmt.Sprint(err, pan), src)
		}
		if v, ok := literal(p); !ok || v != string(c.Val.Bytes()) {
			return hx.Fail(stringMechanism(src, "value"), fmt.Sprintf("printed literal %q (from %s) does not denote the value it was printed from", lit, c.Src), c.Val, hx.FromBytes([]byte(v)), src)
		}
		return hx.Outcome{Skipped: true, Note: "the real lexer reads the literal as the node's value; the disagreement is with the specification's reading"}
	case "tracecheck":
		// an expression of the corpus whose printed text Trace_Grammar reads as another tree than the one it
		// was printed from: a C20 violation if the real parser, too, reads the printed text as another tree
		src := c04.Program(c.Ctx, c.Printed)
		want := c04.ExpectProgram(c.Ctx, c.Rsx)
		p, err, pan := parse([]byte(src))
		if err != nil || pan != nil {
			sig := mechanismOf("reparse-error", src, want, "", fmt.Sprint(err, pan), "C20/corpus-expression/reparse-error/-")
			return hx.Fail(sig, fmt.Sprintf("printed expression %q (from %s) is not accepted by the parser", c.Printed, c.Src), want, fmt.Sprint(err, pan), src)
		}
		if got := sx(p, true); got != want {
			sig := mechanismOf("tree", src, want, got, "", "C20/corpus-expression/tree/-")
			return hx.Fail(sig, fmt.Sprintf("printed expression %q (from %s) parses to another tree than the one it was printed from", c.Printed, c.Src), want, got, src)
		}
		return hx.Outcome{Skipped: true, Note: "parser-side disagreement (C04)"}
	}
	return hx.Outcome{Skipped: true, Note: "unknown family"}
}
